#!/bin/sh
# bin/mutant.sh <patch.diff> [check ids...]
# Applies a seeded change to a scratch copy of /repo's HEAD (never to /repo itself), confirms the pinned test-suite still passes on
# it, runs the given quick checks (default: all 18) against the copy via PROV_SRC and prints which checks notice it.
patch=$(readlink -f "$1"); shift
here=$(cd "$(dirname "$0")/.." && pwd)
copy=/dev/shm/pv-mut-$$
git -C /repo worktree add -f --detach "$copy" HEAD >/dev/null 2>&1 || { echo "cannot create worktree"; exit 2; }
trap 'git -C /repo worktree remove --force "$copy" >/dev/null 2>&1; rm -rf "$copy"' EXIT
if ! git -C "$copy" apply "$patch"; then echo "PATCH DOES NOT APPLY"; exit 2; fi
base=$("$here/bin/baseline.py" "$copy" | head -1)
echo "baseline on mutant: $base"
checks=${*:-C01 C02 C03 C04 C05 C06 C07 C08 C09 C10 C11 C12 C13 C14 C15 C16 C17 C18}
killed=""
for c in $checks; do
  out=$(PROV_SRC="$copy/src" PV_REPLAY_DIR=/dev/shm/pv-mut-replays "$here/bin/check" $c --tier ${TIER:-quick} 2>&1); rc=$?
  first=$(echo "$out" | grep -m1 "violation:" | cut -c1-220)
  echo "  $c rc=$rc $(echo "$out" | head -1 | sed 's/.*verdict=//') $first"
  [ $rc -eq 1 ] && killed="$killed $c"
done
echo "KILLED BY:${killed:- (none)}"
