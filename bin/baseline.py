#!/venv/bin/python
"""Run the repository's pinned test-suite with the verification guard OFF and compare with
/root/.vp/BASELINE.json (stable_pass).  usage: bin/baseline.py [repo_dir]   exit 0 iff none missing."""
import json
import os
import subprocess
import sys
import tempfile
import xml.etree.ElementTree as ET

repo = os.path.abspath(sys.argv[1]) if len(sys.argv) > 1 else "/repo"
env = {k: v for k, v in os.environ.items() if k not in ("PROV_VERIF", "PROV_SRC")}
env["PYTHONPATH"] = os.path.join(repo, "src")
fd, out = tempfile.mkstemp(suffix=".junit.xml")
os.close(fd)
try:
    subprocess.run(
        ["/venv/bin/python", "-m", "pytest", "-q", "-p", "no:cacheprovider", "--timeout=900",
         "--continue-on-collection-errors", "-n", "8", "--junitxml=" + out],
        env=env, cwd=repo, stdout=subprocess.DEVNULL, stderr=subprocess.DEVNULL)
    passed = set()
    for tc in ET.parse(out).getroot().iter("testcase"):
        if not [c for c in tc if c.tag in ("failure", "error", "skipped")]:
            passed.add(tc.get("classname") + "::" + tc.get("name"))
finally:
    os.unlink(out)
norm = lambda s: s.split("prov.tests.")[-1]
base = {norm(x) for x in json.load(open("/root/.vp/BASELINE.json"))["stable_pass"]}
now = {norm(x) for x in passed}
missing = sorted(base - now)
print("baseline %d, passing now %d, baseline tests no longer passing %d" % (len(base), len(base & now), len(missing)))
for m in missing[:40]:
    print("  MISSING", m)
sys.exit(1 if missing else 0)
