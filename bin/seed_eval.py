#!/venv/bin/python
"""bin/seed_eval.py <property id> <out dir of the sub-agent> [check ids...]

Confirms a sub-agent's seeded change independently (patch applies to a scratch copy of /repo HEAD, pinned test-suite still
passes, demonstration fails with the change and passes without it), runs the given quick checks (default: the property's own
check) against the scratch copy, and files the change under /verif/seeded/<id>-<A|B>/ (patch.diff, demo.py, meta.json).
Nothing is ever applied to /repo itself.
"""
import json
import os
import shutil
import subprocess
import sys

VERIF = os.path.dirname(os.path.dirname(os.path.abspath(__file__)))
PY = "/venv/bin/python"


def sh(cmd, **kw):
    return subprocess.run(cmd, capture_output=True, text=True, **kw)


def main():
    pid, out = sys.argv[1], os.path.abspath(sys.argv[2])
    checks = sys.argv[3:] or [pid]
    meta_in = {}
    try:
        meta_in = json.load(open(os.path.join(out, "meta.json")))
    except Exception:
        pass
    for x in ("A", "B"):
        patch, demo = os.path.join(out, x + ".diff"), os.path.join(out, "demo_%s.py" % x)
        if not (os.path.exists(patch) and os.path.exists(demo)):
            print("%s-%s: deliverables missing" % (pid, x))
            continue
        copy = "/dev/shm/pv-seed-%s-%s-%d" % (pid, x, os.getpid())
        sh(["git", "-C", "/repo", "worktree", "add", "-f", "--detach", copy, "HEAD"])
        try:
            res = {"property": pid, "variant": x, "summary": (meta_in.get(x) or {}).get("summary"),
                   "needs_to_manifest": (meta_in.get(x) or {}).get("needs_to_manifest")}
            ap = sh(["git", "-C", copy, "apply", patch])
            res["applies_to_repo_head"] = ap.returncode == 0
            if ap.returncode != 0:
                res["apply_error"] = ap.stderr[-300:]
                print("%s-%s: patch does not apply: %s" % (pid, x, ap.stderr[-200:]))
                continue
            b = sh([os.path.join(VERIF, "bin", "baseline.py"), copy])
            res["baseline"] = b.stdout.strip().splitlines()[0] if b.stdout else b.stderr[-200:]
            res["baseline_ok"] = b.returncode == 0
            env = dict(os.environ)
            env["PYTHONPATH"] = os.path.join(copy, "src")
            d1 = sh([PY, demo], env=env, timeout=600, cwd="/dev/shm")
            env["PYTHONPATH"] = "/repo/src"
            d0 = sh([PY, demo], env=env, timeout=600, cwd="/dev/shm")
            res["demo_with_change_rc"], res["demo_without_change_rc"] = d1.returncode, d0.returncode
            res["demo_output_with_change"] = (d1.stdout + d1.stderr)[-600:]
            res["confirmed"] = bool(res["baseline_ok"] and d1.returncode != 0 and d0.returncode == 0)
            res["checks"] = {}
            for c in checks:
                e = dict(os.environ)
                e["PROV_SRC"] = os.path.join(copy, "src")
                e["PV_REPLAY_DIR"] = "/dev/shm/pv-seed-replays"
                p = sh([os.path.join(VERIF, "bin", "check"), c, "--tier", os.environ.get("TIER", "quick")], env=e, timeout=7200)
                first = [l for l in p.stdout.splitlines() if "violation:" in l][:1]
                res["checks"][c] = {"rc": p.returncode, "verdict": {0: "held", 1: "violated", 2: "inconclusive"}.get(p.returncode, "?"),
                                    "first_violation": first[0].strip()[:400] if first else None}
            res["ran"] = "bin/seed_eval.py %s <agent output> %s  (scratch worktree of /repo HEAD in /dev/shm, PROV_SRC pointed at it)" % (pid, " ".join(checks))
            dest = os.path.join(VERIF, "seeded", "%s-%s%s" % (pid, x, os.environ.get("SEED_TAG", "")))
            if res["confirmed"]:
                os.makedirs(dest, exist_ok=True)
                shutil.copy(patch, os.path.join(dest, "patch.diff"))
                shutil.copy(demo, os.path.join(dest, "demo.py"))
                old = {}
                if os.path.exists(os.path.join(dest, "meta.json")):
                    old = json.load(open(os.path.join(dest, "meta.json")))
                    oldchecks = old.get("checks", {})
                    oldchecks.update(res["checks"])
                    res["checks"] = oldchecks
                json.dump(res, open(os.path.join(dest, "meta.json"), "w"), indent=1, ensure_ascii=False)
            killed = [c for c, v in res["checks"].items() if v["rc"] == 1]
            print("%s-%s%s confirmed=%s baseline_ok=%s demo(with,without)=(%s,%s) killed_by=%s  | %s" % (
                pid, x, os.environ.get("SEED_TAG", ""), res["confirmed"], res["baseline_ok"], d1.returncode, d0.returncode, killed or "NONE", (res["summary"] or "")[:110]))
        finally:
            sh(["git", "-C", "/repo", "worktree", "remove", "--force", copy])
            shutil.rmtree(copy, ignore_errors=True)


if __name__ == "__main__":
    main()
