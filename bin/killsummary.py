#!/venv/bin/python
"""bin/killsummary.py -- seeded/KILLSUMMARY.txt from the meta.json files: for every seeded change, which checks were run against it
(bin/seed_eval.py / bin/mutant.sh, scratch copies only) and what each reported.  bin/killmatrix.sh produces the full matrix
(every change x every quick check), which takes many hours; this summary is what was actually run while the checks were built."""
import glob
import json
import os

VERIF = os.path.dirname(os.path.dirname(os.path.abspath(__file__)))
rows = []
own_killed = total = 0
for d in sorted(glob.glob(os.path.join(VERIF, "seeded", "C*"))):
    m = json.load(open(os.path.join(d, "meta.json")))
    cid = os.path.basename(d)
    own = m["property"]
    checks = m.get("checks", {})
    total += 1
    if checks.get(own, {}).get("rc") == 1:
        own_killed += 1
    cells = " ".join("%s=%s" % (c, {0: "held", 1: "VIOLATED", 2: "inconclusive"}.get(v.get("rc"), "?")) for c, v in sorted(checks.items()))
    rows.append("%-8s own check %s: %-9s | %s | %s" % (cid, own, {1: "caught", 0: "MISSED", 2: "inconcl."}.get(checks.get(own, {}).get("rc"), "not run"),
                                                      cells, (m.get("summary") or "")[:140].replace("\n", " ")))
with open(os.path.join(VERIF, "seeded", "KILLSUMMARY.txt"), "w") as f:
    f.write("%d seeded changes, %d caught by the quick check of their own property\n" % (total, own_killed))
    f.write("\n".join(rows) + "\n")
print("%d changes, %d caught by own check" % (total, own_killed))
