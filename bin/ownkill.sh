#!/bin/sh
# bin/ownkill.sh [seeded dirs...]   re-validates every seeded change against the quick check of its own property with the *current*
# checks and the current /repo HEAD (scratch copy in /dev/shm, PROV_SRC; never /repo itself).  Writes seeded/OWNKILL.txt.
cd "$(dirname "$0")/.."
here=$(pwd)
dirs=${*:-$(ls -d seeded/C*/ | sort)}
out=seeded/OWNKILL.txt
: > "$out.tmp"
for d in $dirs; do
  id=$(basename "$d")
  own=$(echo "$id" | cut -c1-3)
  copy=/dev/shm/pv-own-$$
  git -C /repo worktree add -f --detach "$copy" HEAD >/dev/null 2>&1
  if git -C "$copy" apply "$here/$d/patch.diff" 2>/dev/null; then
    o=$(PROV_SRC="$copy/src" PV_REPLAY_DIR=/dev/shm/pv-own-replays bin/check $own --tier quick 2>&1); rc=$?
    first=$(echo "$o" | grep -m1 "violation:" | cut -c1-160)
    echo "$id | $own rc=$rc $( [ $rc -eq 1 ] && echo caught || echo NOT-CAUGHT ) | $first" | tee -a "$out.tmp"
  else
    echo "$id | PATCH DOES NOT APPLY to $(git -C /repo rev-parse --short HEAD)" | tee -a "$out.tmp"
  fi
  git -C /repo worktree remove --force "$copy" >/dev/null 2>&1; rm -rf "$copy"
done
{ echo "re-validated against /repo $(git -C /repo rev-parse --short HEAD) with the checks of /verif $(git rev-parse --short HEAD 2>/dev/null)"; cat "$out.tmp"; } > "$out"
rm -f "$out.tmp"
grep -c " caught " "$out"
