#!/opt/veriftools/pyvenv/bin/python
"""Validate MANIFEST.json and evidence/*.json against the schemas in /root/.vp (tooling venv has jsonschema)."""
import glob, json, sys, os
import jsonschema
here = os.path.dirname(os.path.dirname(os.path.abspath(__file__)))
ok = True
def check(path, schema):
    global ok
    try:
        jsonschema.validate(json.load(open(path)), json.load(open(schema)))
        print("valid  ", path)
    except Exception as e:
        ok = False
        print("INVALID", path, str(e)[:300])
check(os.path.join(here, "MANIFEST.json"), "/root/.vp/MANIFEST.schema.json")
for p in sorted(glob.glob(os.path.join(here, "evidence", "*.json"))):
    check(p, "/root/.vp/EVIDENCE.schema.json")
sys.exit(0 if ok else 1)
