#!/venv/bin/python
"""Regenerate MANIFEST.json from the metadata of the check modules present in lib/pv/checks."""
import importlib, json, os, sys
here = os.path.dirname(os.path.dirname(os.path.abspath(__file__)))
sys.path.insert(0, os.path.join(here, "lib"))
props = [json.loads(l)["id"] for l in open(os.path.join(here, "properties.jsonl"))]
NA = {}
na_path = os.path.join(here, "not_applicable.json")
if os.path.exists(na_path):
    NA = json.load(open(na_path))
checks, not_app = [], []
for pid in props:
    path = os.path.join(here, "lib", "pv", "checks", pid.lower() + ".py")
    if pid in NA or not os.path.exists(path):
        not_app.append({"property_id": pid, "reason": NA.get(pid, "check not built yet in this session (work in progress; the property is addressable, see DESIGN.md)")})
        continue
    m = importlib.import_module("pv.checks." + pid.lower())
    checks.append({
        "property_id": pid,
        "quick_cmd": "bin/check %s --tier quick" % pid,
        "thorough_cmd": "bin/check %s --tier thorough" % pid,
        "evidence_file": "evidence/%s.json" % pid,
        "replay_cmd_template": "bin/check %s --replay {path}" % pid,
        "engine": "pv",
        "level_claimed": {"category": m.LEVEL, "text": m.LEVEL_TEXT, "design_ref": m.DESIGN_REF},
        "level_note": m.LEVEL_NOTE,
        "technique": m.TECHNIQUE,
    })
man = {
    "version": 1,
    "setup_cmd": "sh setup.sh",
    "hooks": {
        "guard": "PROV_VERIF",
        "enable": "no instrumentation is committed to /repo: monitors are attached from /verif/lib/pv/monitors.py by wrapping the imported library's public entry points (functools.wraps) when a check runs; PROV_VERIF=1 is exported by the checks for uniformity only",
        "baseline_off_cmd": "bin/baseline.py /repo",
        "source_commits": [],
        "add_only": True,
    },
    "engines": [{"name": "pv", "path": "lib/pv", "serves_properties": [c["property_id"] for c in checks],
                 "kind_free_text": "runtime monitoring: generated API programs + monitors (NS/NF/IDX/PURE hooks, strict snapshot, independent readers, reference models, audit-hook/strace fault injection)"}],
    "checks": checks,
    "not_applicable": not_app,
    "notes": "bin/check <id> --tier quick|thorough [--seed N] (VERIF_SEED/VERIF_TIER honoured). exit 0 held / 1 VIOLATION / 2 INCONCLUSIVE. Code under test is imported from /repo/src (PROV_SRC overrides for scratch copies). 'fix:' commits in /repo are listed in known_findings.json as fixed entries.",
}
json.dump(man, open(os.path.join(here, "MANIFEST.json"), "w"), indent=1)
print("MANIFEST.json: %d checks, %d not_applicable" % (len(checks), len(not_app)))
