#!/bin/sh
# bin/killmatrix.sh [seeded dirs...]   every seeded change x every quick check (scratch copies; never /repo). Writes seeded/KILLMATRIX.txt
cd "$(dirname "$0")/.."
dirs=${*:-$(ls -d seeded/C*/ | sort)}
out=seeded/KILLMATRIX.txt
: > "$out.tmp"
for d in $dirs; do
  id=$(basename "$d")
  res=$(bin/mutant.sh "$d/patch.diff" 2>&1)
  killed=$(echo "$res" | grep "^KILLED BY:" | sed 's/KILLED BY://')
  base=$(echo "$res" | grep "^baseline on mutant" | sed 's/.*no longer passing //')
  echo "$id | tests no longer passing: $base | killed by:$killed" | tee -a "$out.tmp"
done
mv "$out.tmp" "$out"
