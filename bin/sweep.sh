#!/bin/sh
# bin/sweep.sh <tier> <seed>...   run every registered check for each seed; print one line per (check, seed)
tier=$1; shift
cd "$(dirname "$0")/.."
for seed in "$@"; do
  for c in C01 C02 C03 C04 C05 C06 C07 C08 C09 C10 C11 C12 C13 C14 C15 C16 C17 C18; do
    out=$(VERIF_SEED=$seed bin/check $c --tier $tier 2>&1); rc=$?
    echo "$c seed=$seed rc=$rc $(echo "$out" | head -1 | sed 's/^[^:]*: //')"
    if [ $rc -ne 0 ]; then echo "$out" | grep -E "violation:|INCONCLUSIVE|VIOLATION" | head -4 | cut -c1-300; fi
  done
done
