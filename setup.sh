#!/bin/sh
# Offline setup: nothing to build or fetch. Verify the interpreter, the repository's dependencies and the external tools.
set -e
cd "$(dirname "$0")"
mkdir -p evidence replays
PYTHONPATH=lib /venv/bin/python - <<'PY'
import sys
assert sys.version_info >= (3, 12), "sys.monitoring (3.12+) is needed for coverage and failpoints"
import lxml, rdflib, networkx, pydot, dateutil  # the repository's own dependencies
from pv import env
env.activate()
import prov
print("prov from", prov.__file__)
PY
command -v dot >/dev/null || { echo "graphviz 'dot' missing"; exit 1; }
command -v strace >/dev/null || echo "note: strace missing (C17 thorough tier will be inconclusive)"
echo setup ok
