"""Build a document through the public API from a strict *ordered* snapshot (pure data).

Used to derive variants of a document (permutations, edits) without touching library internals.
The split of a URI into namespace + local part is arbitrary (identity is the URI); every namespace gets a
fresh prefix n<k>, so rebuilt documents also exercise 'same content under other prefixes'.
"""
import datetime

import prov.model as pm
from prov.identifier import Identifier, Namespace

PROVNS = "http://www.w3.org/ns/prov#"
XSDNS = "http://www.w3.org/2001/XMLSchema#"


class Builder:
    def __init__(self, prefix_base="n", split="last"):
        self.ns = {}
        self.base = prefix_base
        self.split = split

    def qn(self, uri):
        if uri.startswith(PROVNS):
            from prov.constants import PROV
            return PROV[uri[len(PROVNS):]]
        if uri.startswith(XSDNS):
            from prov.constants import XSD
            return XSD[uri[len(XSDNS):]]
        cut = max(uri.rfind("/"), uri.rfind("#"), uri.rfind(":")) + 1
        if cut <= 0 or cut >= len(uri) + 1:
            cut = 1
        nsu, local = uri[:cut], uri[cut:]
        if nsu not in self.ns:
            self.ns[nsu] = Namespace("%s%d" % (self.base, len(self.ns)), nsu)
        return self.ns[nsu][local]

    def value(self, vk):
        k = vk[0]
        if k in ("str", "bool", "int"):
            return vk[1]
        if k == "float":
            return float(vk[1])
        if k == "dt":
            dt = datetime.datetime.fromisoformat(vk[1])
            if vk[2] is not None:
                dt = dt.replace(tzinfo=datetime.timezone(datetime.timedelta(seconds=vk[2])))
            return dt
        if k == "qn":
            return self.qn(vk[1])
        if k == "uri":
            return Identifier(vk[1])
        if k == "lit":
            return pm.Literal(vk[1], self.qn(vk[2]) if vk[2] else None, vk[3])
        raise ValueError(vk)

    def add_record(self, container, rk):
        t, i, attrs = rk
        pairs = [(self.qn(a), self.value(v)) for (a, v), n in attrs for _ in range(n)]
        return container.new_record(self.qn(t), self.qn(i) if i is not None else None, pairs)

    def document(self, ordered_doc):
        doc = pm.ProvDocument()
        for b, keys in ordered_doc:
            c = doc if b is None else doc.bundle(self.qn(b))
            for rk in keys:
                self.add_record(c, rk)
        return doc


def from_ordered(ordered_doc, prefix_base="n"):
    return Builder(prefix_base).document(ordered_doc)
