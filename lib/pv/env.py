"""Locate the code under test and record the identity of the tree for the evidence.

The library is imported from PROV_SRC (default /repo/src), never from an installed copy;
importing from anywhere else is a hard error, so a check can never silently judge another tree.
"""
import hashlib
import os
import subprocess
import sys

VERIF = os.path.dirname(os.path.dirname(os.path.dirname(os.path.abspath(__file__))))
PROV_SRC = os.path.abspath(os.environ.get("PROV_SRC", "/repo/src"))
REPO = os.path.dirname(PROV_SRC)
PYTHON = os.environ.get("PV_PYTHON", "/venv/bin/python")


def activate():
    """Put PROV_SRC first on sys.path and assert that `prov` comes from there."""
    if sys.path[0] != PROV_SRC:
        sys.path.insert(0, PROV_SRC)
    os.environ.setdefault("PROV_VERIF", "1")
    import warnings
    import logging

    warnings.simplefilter("ignore")
    logging.disable(logging.CRITICAL)
    import prov

    origin = os.path.dirname(os.path.abspath(prov.__file__))
    if not origin.startswith(PROV_SRC):
        raise SystemExit("pv.env: prov imported from %s, expected under %s" % (origin, PROV_SRC))
    return prov


def tree_identity():
    out = {"prov_src": PROV_SRC}
    try:
        out["repo_head"] = subprocess.run(
            ["git", "-C", REPO, "rev-parse", "HEAD"], capture_output=True, text=True, timeout=20
        ).stdout.strip()
        diff = subprocess.run(
            ["git", "-C", REPO, "diff", "HEAD", "--", "src"], capture_output=True, timeout=20
        ).stdout
        out["worktree_diff_sha1"] = hashlib.sha1(diff).hexdigest() if diff else None
    except Exception as e:  # not a git tree (scratch copy): hash the sources instead
        out["repo_head"] = "n/a (%s)" % type(e).__name__
    h = hashlib.sha1()
    for root, _dirs, files in sorted(os.walk(os.path.join(PROV_SRC, "prov"))):
        if "tests" in root.split(os.sep):
            continue
        for f in sorted(files):
            if f.endswith(".py"):
                with open(os.path.join(root, f), "rb") as fh:
                    h.update(f.encode() + b"\0" + fh.read())
    out["source_sha1"] = h.hexdigest()
    return out


def tool_versions():
    v = {"python": sys.version.split()[0]}
    for mod in ("rdflib", "lxml", "networkx", "pydot", "dateutil"):
        try:
            m = __import__(mod)
            v[mod] = getattr(m, "__version__", "?")
        except Exception:
            v[mod] = None
    return v
