"""Route twins: the same statements made through other entry points of the public API.

route_twin(ops, r) rewrites a program so that every record is stated through another route where one exists -- element
convenience method <-> bundle factory <-> new_record, a formal argument given as a 'prov:<name>' attribute instead of a
positional argument, and (through interp.run(style_xor=...)) alias method / keyword arguments / dict-form other_attributes.
The twin states exactly the same information, so it must build the same content.
"""
import copy

from pv.gen import KINDS, NO_ID_FACTORY, TIME_ATTRS


def route_twin(ops, r):
    ops = copy.deepcopy(ops)
    changed = []
    for op in ops:
        if op[0] != "rec":
            continue
        kind, args, via = op[2], op[4], op[6]
        _factory, formals = KINDS[kind]
        x = r.random()
        if via == "conv":
            if x < 0.7:
                recv = op[8]
                del op[8]
                args[formals[0]] = {"form": "rec", "label": recv}   # the convenience method states its receiver as first argument
                op[6] = r.choice(["new_record", "factory"])
                changed.append("conv->" + op[6])
        elif via == "factory" and x < 0.5:
            op[6] = "new_record"
            changed.append("factory->new_record")
        elif via == "new_record" and x < 0.5:
            op[6] = "factory"     # the interpreter falls back to new_record where the factory cannot express the call
            changed.append("new_record->factory")
        if op[6] != "conv" and not (op[6].startswith("factory") and kind in NO_ID_FACTORY) and r.random() < 0.4:
            # only the last formal argument present, placed before the other attributes: names given as strings are resolved in
            # call order against the namespaces registered so far, so the order of resolution must stay what it was
            present = [f for f in formals if f in args]
            if len(present) >= 2:
                f = present[-1]
                spec = args.pop(f)
                name = {"form": "str", "s": "prov:" + f} if r.random() < 0.6 else {"form": "prov", "local": f}
                val = dict(spec, k="dt") if f in TIME_ATTRS else {"k": "qn", "name": spec}
                op[5] = [[name, val]] + list(op[5])
                changed.append("formal-as-attribute")
    return ops, changed
