"""pytest plugin: run the repository's own test-suite with the background monitors (NS, NF, PURE, IDX) attached.

Loaded through PYTEST_PLUGINS=pv.pytest_plugin (so that xdist workers load it too).  Every process writes what its monitors
saw to $PV_PLUGIN_OUT.<pid>.json at session end; the check that started the run merges and judges the files.
"""
import json
import os

from pv import monitors

_hub = monitors.attach_all()
_current = {"test": None}


def pytest_runtest_setup(item):
    _current["test"] = item.nodeid
    _hub.context = {"test": item.nodeid}


def pytest_sessionfinish(session, exitstatus):
    out = os.environ.get("PV_PLUGIN_OUT")
    if not out:
        return
    data = {"counts": dict(_hub.counts),
            "violations": [{"monitor": m, "what": w, "witness": wit} for m, w, wit in _hub.violations[:50]]}
    with open("%s.%d.json" % (out, os.getpid()), "w") as f:
        json.dump(data, f, default=repr)
