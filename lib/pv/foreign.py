"""Specification-driven generator of *foreign* PROV-JSON and PROV-XML texts: dialects the library's own writers never
produce (singleton arrays, multi-entity memberships, record arrays, every literal spelling, bundle-level prefix blocks,
re-declared prefixes, subtype XML elements, xsi:type on record elements, prefix declarations on inner elements,
arbitrary key order).  Shares no code with the library; what a text *means* is decided by the independent readers.
"""
import json
from xml.sax.saxutils import escape, quoteattr

from pv.readers.common import KINDS, PROV, TIME_FORMALS, XML_SUBTYPES, XSD

NSPOOL = ["http://ex.org/", "http://ex.org/sub#", "urn:x:", "http://other.org/ns#"]
PREFIXES = ["ex", "o", "u", "a", "ex2"]
LOCALS = ["e1", "e2", "a1", "a2", "ag1", "c1", "r1", "x.y", "b-1"]
ATTRS = ["tag", "v", "n_1", "time", "startTime", "type"]   # application attributes may share a local name with a PROV attribute
GENERIC = ["type", "label", "value", "location", "role"]
SUBTYPE_OF = {}
for _el, (_k, _t) in XML_SUBTYPES.items():
    SUBTYPE_OF.setdefault(_k, []).append((_el, _t))


def abstract_document(r, xml=False):
    """Abstract content: namespaces by index, records with URIs (ns index, local), values as abstract kinds."""
    nns = r.randint(1, 3)

    def name(pool=LOCALS):
        return [r.randrange(nns), r.choice(pool)]

    def value():
        k = r.choice(["str", "int", "float", "bool", "dt", "uri", "qn", "lang", "typed_int", "foreign_lit", "typed_str", "typed_bool", "typed_double", "app_typed"])
        if k == "str":
            return ["str", r.choice(["a", "hello world", "", "é中", "x<y&z", 'q"t', "line\nbreak", "5", "true", "  lead", "trail  ", " "])]
        if k == "int":
            return ["int", r.choice([0, 1, -7, 42, 2 ** 40, 2 ** 53 + 1, 9223372036854775807, -(2 ** 63) + 1, 10 ** 17 + 3])]
        if k == "float":
            return ["float", r.choice([1.5, -0.25, 1e10, 2.0])]
        if k == "bool":
            return ["bool", r.random() < 0.5]
        if k == "dt":
            return ["dt", "%04d-%02d-%02dT%02d:%02d:%02d%s" % (r.randint(1990, 2030), r.randint(1, 12), r.randint(1, 28), r.randint(0, 23),
                                                                r.randint(0, 59), r.randint(0, 59), r.choice(["", "Z", "+01:00", ".250000", "-05:30"]))]
        if k == "uri":
            return ["uri", r.choice(["http://x.org/y", "urn:a:b"])]
        if k == "qn":
            return ["qn", name()]
        if k == "lang":
            return ["lang", r.choice(["hi", "été", ""]), r.choice(["en", "fr", "EN", "en-GB", "en-gb"])]
        if k == "typed_int":
            return ["typed", str(r.choice([3, -12, 7, 2 ** 53 + 1, 9223372036854775807, 9007199254740993])), r.choice(["int", "long"]), r.random() < 0.5]
        if k == "typed_str":
            return ["typed", r.choice(["abc", "", "x y", "  lead", "trail  ", " ", "line\n", "\tboth\t"]), "string", False]
        if k == "typed_bool":
            return ["typed", r.choice(["true", "false", "1", "0"]), "boolean", r.random() < 0.5]
        if k == "typed_double":
            return ["typed", r.choice(["1.5", "2", "1e3"]), "double", r.random() < 0.5]
        if k == "app_typed":
            # a datatype of the application's own, named through one of the document's namespaces: what the name means depends on the
            # prefixes in scope where it is written (few names, so that texts keep re-using a name under other bindings)
            return ["apptyped", r.choice(["21.5", "19", "", "a b"]), [r.randrange(nns), r.choice(["celsius", "unit"])]]
        return ["typed", r.choice(["10", "1.50", "2002"]), r.choice(["integer", "decimal", "gYear", "short", "float"]), False]

    def records(nmax):
        out = []
        for _ in range(r.randint(0, nmax)):
            kind = r.choice(list(KINDS))
            formals = KINDS[kind][1]
            elem = kind in ("Entity", "Activity", "Agent")
            rid = name() if (elem or r.random() < 0.5) else None
            same = [x["id"] for x in out if x["kind"] == kind and x["id"] is not None]
            if rid is not None and same and r.random() < 0.3:
                rid = r.choice(same)          # repeated identifier -> record array in PROV-JSON
            rec = {"kind": kind, "id": rid, "args": {}, "attrs": []}
            for i, f in enumerate(formals):
                if f in TIME_FORMALS:
                    if r.random() < 0.5:
                        rec["args"][f] = value_dt(r)
                elif i < 2 or r.random() < 0.5:
                    rec["args"][f] = name()
            if kind == "Membership" and r.random() < 0.5:
                rec["members"] = [name() for _ in range(r.randint(2, 3))]
                if xml:
                    rec["id"] = None
            if kind != "Membership" or "members" not in rec or not xml:
                for _ in range(r.randint(0, 3)):
                    an = ["prov", r.choice(GENERIC)] if r.random() < 0.5 else name(ATTRS)
                    v = value()
                    if an == ["prov", "label"] and xml:
                        v = ["str", "label"] if r.random() < 0.5 else ["lang", "lbl", "en"]
                    rec["attrs"].append([an, v])
                    if v[0] == "lang" and v[1] and r.random() < 0.35:
                        # the same text under the same tag in another letter case: another value, as far as the data model goes
                        rec["attrs"].append([an, ["lang", v[1], v[2].upper() if v[2] != v[2].upper() else v[2].lower()]])
            if xml and kind in SUBTYPE_OF and r.random() < 0.3:
                rec["subtype"] = r.choice(SUBTYPE_OF[kind])
            if xml and r.random() < 0.08:
                rec["xsi_type"] = name(["T1", "Kind"])
            out.append(rec)
        return out

    doc = {"nss": r.sample(NSPOOL, nns), "records": records(5), "bundles": []}
    for i in range(r.randint(0, 2)):
        doc["bundles"].append({"id": [r.randrange(nns), "bundle%d" % i], "records": records(4)})
    return doc


def value_dt(r):
    return "%04d-%02d-%02dT%02d:%02d:%02d%s" % (r.randint(1990, 2030), r.randint(1, 12), r.randint(1, 28), r.randint(0, 23), r.randint(0, 59),
                                                 r.randint(0, 59), r.choice(["", "Z", "+01:00", ".500000"]))


# ---------------------------------------------------------------------------------------------------
# PROV-JSON dialect writer
# ---------------------------------------------------------------------------------------------------
class JsonWriter:
    def __init__(self, r, doc):
        self.r, self.doc = r, doc
        self.features = set()

    def scopes(self):
        """Decide where each namespace is declared: document level, bundle level, default namespace, re-declared."""
        r, nss = self.r, self.doc["nss"]
        pfx = r.sample(PREFIXES, len(nss))
        self.docmap = {}          # ns index -> prefix ('' = default) at document level
        use_default = r.random() < 0.3
        for i, _u in enumerate(nss):
            if use_default and i == 0:
                self.docmap[i] = ""
                self.features.add("default_namespace")
            else:
                self.docmap[i] = pfx[i]
        self.bmaps = []
        for b in self.doc["bundles"]:
            m = dict(self.docmap)
            block = {}
            x = r.random()
            if x < 0.35:
                # bundle-level prefix block re-declaring a document prefix for the same namespace under another name
                i = r.randrange(len(nss))
                newp = r.choice([p for p in PREFIXES + ["bp"] if p not in m.values()])
                m[i] = newp
                block[newp] = nss[i]
                self.features.add("bundle_prefix_block")
            elif x < 0.5 and len(nss) > 1:
                # re-declare an existing prefix for ANOTHER namespace inside the bundle (shadowing)
                i, j = r.sample(range(len(nss)), 2)
                if m[i] != "" and m[j] != "":
                    p = m[i]
                    block[p] = nss[j]
                    newp = r.choice([q for q in PREFIXES + ["bq"] if q not in m.values()])
                    block[newp] = nss[i]
                    m[j] = p
                    m[i] = newp
                    self.features.add("redeclared_prefix")
            self.bmaps.append((m, block))

    def q(self, name, m):
        if name[0] == "prov":
            return "prov:" + name[1]
        p = m[name[0]]
        return name[1] if p == "" else "%s:%s" % (p, name[1])

    def val(self, v, m):
        r = self.r
        k = v[0]
        if k == "str":
            if r.random() < 0.2:
                self.features.add("typed_string_object")
                return {"$": v[1], "type": "xsd:string"}
            return v[1]
        if k == "int":
            x = r.random()
            if x < 0.3:
                return v[1]
            if x < 0.6:
                self.features.add("typed_number_object")
                return {"$": v[1], "type": "xsd:int"}
            self.features.add("typed_number_as_string")
            return {"$": str(v[1]), "type": r.choice(["xsd:int", "xsd:long"])}
        if k == "float":
            x = r.random()
            if x < 0.3:
                return v[1]
            if x < 0.6:
                return {"$": v[1], "type": "xsd:double"}
            return {"$": repr(v[1]), "type": "xsd:double"}
        if k == "bool":
            if r.random() < 0.5:
                return v[1]
            self.features.add("typed_boolean_object")
            return {"$": r.choice([v[1], "true" if v[1] else "false"]), "type": "xsd:boolean"}
        if k == "dt":
            return {"$": v[1], "type": "xsd:dateTime"}
        if k == "uri":
            return {"$": v[1], "type": "xsd:anyURI"}
        if k == "qn":
            return {"$": self.q(v[1], m), "type": "prov:QUALIFIED_NAME"}
        if k == "lang":
            if r.random() < 0.3:
                self.features.add("lang_with_type")
                return {"$": v[1], "type": "prov:InternationalizedString", "lang": v[2]}
            return {"$": v[1], "lang": v[2]}
        if k == "apptyped":
            self.features.add("application_datatype")
            return {"$": v[1], "type": self.q(v[2], m)}
        if k == "typed":
            raw = v[1]
            if v[3] and v[2] in ("int", "long"):
                raw = int(raw)
            return {"$": raw, "type": "xsd:" + v[2]}
        raise AssertionError(v)

    def container(self, records, m):
        r = self.r
        out = {}
        anon = [0]
        for rec in records:
            name = KINDS[rec["kind"]][0]
            body = {}
            for f, x in rec["args"].items():
                s = x if f in TIME_FORMALS else self.q(x, m)
                if r.random() < 0.2:
                    self.features.add("formal_singleton_array")
                    s = [s]
                body["prov:" + f] = s
            if rec.get("members"):
                body["prov:entity"] = [self.q(x, m) for x in rec["members"]]
                self.features.add("multi_entity_membership")
            byattr = {}
            for an, v in rec["attrs"]:
                byattr.setdefault(self.q(an, m), []).append(self.val(v, m))
            for k, vs in byattr.items():
                if len(vs) == 1 and r.random() < 0.7:
                    body[k] = vs[0]
                else:
                    if len(vs) == 1:
                        self.features.add("singleton_value_array")
                    body[k] = vs
            items = list(body.items())
            r.shuffle(items)
            body = dict(items)
            if rec["id"] is None:
                anon[0] += 1
                rid = "_:%s%d" % (r.choice(["b", "id", "n"]), anon[0])
            else:
                rid = self.q(rec["id"], m)
            slot = out.setdefault(name, {})
            if rid in slot:
                if isinstance(slot[rid], list):
                    slot[rid].append(body)
                else:
                    slot[rid] = [slot[rid], body]
                self.features.add("record_array")
            elif r.random() < 0.1:
                slot[rid] = [body]
                self.features.add("singleton_record_array")
            else:
                slot[rid] = body
        return out

    def text(self):
        r = self.r
        self.scopes()
        nss = self.doc["nss"]
        top = self.container(self.doc["records"], self.docmap)
        prefix = {}
        for i, p in self.docmap.items():
            prefix["default" if p == "" else p] = nss[i]
        if r.random() < 0.2:
            prefix["unused"] = "http://unused.example/"
        top["prefix"] = prefix
        if self.doc["bundles"]:
            top["bundle"] = {}
            for b, (m, block) in zip(self.doc["bundles"], self.bmaps):
                c = self.container(b["records"], m)
                if block:
                    c["prefix"] = block
                # spelled in the bundle's scope; the independent reader flags the case as ambiguous (skipped) when the
                # document scope would read the same string as another URI
                top["bundle"][self.q(b["id"], m)] = c
        items = list(top.items())
        r.shuffle(items)
        self.features.add("shuffled_key_order")
        return json.dumps(dict(items), indent=r.choice([None, 1]), ensure_ascii=r.random() < 0.5)


# ---------------------------------------------------------------------------------------------------
# PROV-XML dialect writer
# ---------------------------------------------------------------------------------------------------
class XmlWriter:
    def __init__(self, r, doc):
        self.r, self.doc = r, doc
        self.features = set()

    def q(self, name, m):
        if name[0] == "prov":
            return "prov:" + name[1]
        p = m[name[0]]
        return name[1] if p == "" else "%s:%s" % (p, name[1])

    def decls(self, m, only=None):
        out = []
        for i, p in m.items():
            if only is not None and i not in only:
                continue
            out.append(' xmlns%s=%s' % ("" if p == "" else ":" + p, quoteattr(self.doc["nss"][i])))
        return "".join(out)

    def value_el(self, an, v, m, indent):
        r = self.r
        tag = self.q(an, m)
        k = v[0]
        attrs, text = "", ""
        extra_decl = ""
        if k == "str":
            text = v[1]
            if r.random() < 0.4:
                attrs = ' xsi:type="xsd:string"'
        elif k == "int":
            text, attrs = str(v[1]), ' xsi:type="xsd:%s"' % r.choice(["int", "long"])
        elif k == "float":
            text, attrs = repr(v[1]), ' xsi:type="xsd:double"'
        elif k == "bool":
            text, attrs = r.choice([["true", "1"], ["false", "0"]][0 if v[1] else 1]), ' xsi:type="xsd:boolean"'
        elif k == "dt":
            text, attrs = v[1], ' xsi:type="xsd:dateTime"'
        elif k == "uri":
            text, attrs = v[1], ' xsi:type="xsd:anyURI"'
        elif k == "qn":
            if r.random() < 0.25:
                # declare a private prefix on this very element
                p = "loc%d" % r.randint(0, 9)
                extra_decl = " xmlns:%s=%s" % (p, quoteattr(self.doc["nss"][v[1][0]]))
                text = "%s:%s" % (p, v[1][1])
                self.features.add("prefix_declared_on_value_element")
            else:
                text = self.q(v[1], m)
            attrs = ' xsi:type="xsd:QName"'
        elif k == "lang":
            text, attrs = v[1], ' xml:lang="%s"' % v[2]
            if r.random() < 0.3:
                attrs += ' xsi:type="prov:InternationalizedString"'
                self.features.add("lang_with_type")
        elif k == "typed":
            text, attrs = v[1], ' xsi:type="xsd:%s"' % v[2]
        elif k == "apptyped":
            self.features.add("application_datatype")
            text, attrs = v[1], ' xsi:type="%s"' % self.q(v[2], m)
        if text == "" and r.random() < 0.5:
            self.features.add("empty_element")
            return "%s<%s%s%s/>\n" % (indent, tag, extra_decl, attrs)
        return "%s<%s%s%s>%s</%s>\n" % (indent, tag, extra_decl, attrs, escape(text), tag)

    def record(self, rec, m, indent):
        r = self.r
        kind = rec["kind"]
        el = KINDS[kind][0]
        extra = []
        if rec.get("subtype"):
            el = rec["subtype"][0]
            self.features.add("subtype_element")
        head = "%s<prov:%s" % (indent, el)
        if rec["id"] is not None:
            head += " prov:id=%s" % quoteattr(self.q(rec["id"], m))
        if rec.get("xsi_type"):
            head += " xsi:type=%s" % quoteattr(self.q(rec["xsi_type"], m))
            self.features.add("xsi_type_on_record_element")
        body = ""
        for f in KINDS[kind][1]:
            if f in rec["args"]:
                if f in TIME_FORMALS:
                    body += "%s  <prov:%s>%s</prov:%s>\n" % (indent, f, rec["args"][f], f)
                else:
                    body += "%s  <prov:%s prov:ref=%s/>\n" % (indent, f, quoteattr(self.q(rec["args"][f], m)))
            if f == "entity" and rec.get("members"):
                pass
        if rec.get("members"):
            # replace the single entity child by the member list (PROV-XML allows several prov:entity children)
            lines = [l for l in body.splitlines(True) if "<prov:entity " not in l]
            body = "".join(lines)
            for x in rec["members"]:
                body += "%s  <prov:entity prov:ref=%s/>\n" % (indent, quoteattr(self.q(x, m)))
            self.features.add("multi_entity_membership")
        generic = [(an, v) for an, v in rec["attrs"] if an[0] == "prov"]
        other = [(an, v) for an, v in rec["attrs"] if an[0] != "prov"]
        generic.sort(key=lambda av: GENERIC.index(av[0][1]))
        for an, v in generic + other:
            body += self.value_el(an, v, m, indent + "  ")
        if not body:
            return head + "/>\n"
        return head + ">\n" + body + "%s</prov:%s>\n" % (indent, el)

    def text(self):
        r = self.r
        nss = self.doc["nss"]
        pfx = r.sample(PREFIXES, len(nss))
        docmap = {i: pfx[i] for i in range(len(nss))}
        if r.random() < 0.3:
            docmap[0] = ""
            self.features.add("default_namespace")
        # some namespaces are declared on the bundle element only
        out = '<?xml version="1.0" encoding="UTF-8"?>\n'
        out += '<prov:document xmlns:prov="%s" xmlns:xsd="http://www.w3.org/2001/XMLSchema" xmlns:xsi="http://www.w3.org/2001/XMLSchema-instance"%s>\n' % (
            PROV, self.decls(docmap))
        if r.random() < 0.15:
            out += "  <!-- a comment -->\n"
            self.features.add("comment")
        for rec in self.doc["records"]:
            out += self.record(rec, docmap, "  ")
        if r.random() < 0.03:
            # scale: a dozen elements that each re-bind one prefix locally (other tools declare namespaces where they use them)
            sp = r.choice(["st", pfx[0]])
            for i in range(r.randint(12, 15)):
                out += '  <prov:entity xmlns:%s="http://storm.example/%d/" prov:id="%s:e%d"><%s:v>%d</%s:v></prov:entity>\n' % (sp, i, sp, i % 3, sp, i, sp)
            self.features.add("prefix_storm")
        for b in self.doc["bundles"]:
            m = dict(docmap)
            decl = ""
            if r.random() < 0.4:
                i = r.randrange(len(nss))
                newp = r.choice([p for p in PREFIXES + ["bp"] if p not in m.values()])
                m[i] = newp
                decl = " xmlns:%s=%s" % (newp, quoteattr(nss[i]))
                self.features.add("bundle_level_declaration")
            out += "  <prov:bundleContent prov:id=%s%s>\n" % (quoteattr(self.q(b["id"], m)), decl)
            for rec in b["records"]:
                out += self.record(rec, m, "    ")
            out += "  </prov:bundleContent>\n"
        out += "</prov:document>\n"
        return out
