"""Sharding over worker subprocesses, watchdogs, evidence merge and verdict discipline.

Verdicts are three-valued:
  exit 0  held on everything observed (evidence says what was observed)
  exit 1  violated            -> line `VIOLATION property=<id> replay=<path>` on stdout
  exit 2  inconclusive        -> line `INCONCLUSIVE property=<id> reason=...`
An inconclusive run is a defect of the machinery (a floor was missed, a worker died or timed out,
a deciding monitor never fired); it is never folded into "held".
"""
import collections
import importlib
import json
import os
import random
import subprocess
import sys
import time
import traceback

from pv import env

NCPU = int(os.environ.get("PV_WORKERS", "0")) or min(16, os.cpu_count() or 4)
EVIDENCE_DIR = os.path.join(env.VERIF, "evidence")
REPLAY_DIR = os.environ.get("PV_REPLAY_DIR") or os.path.join(env.VERIF, "replays")
if os.environ.get("PV_REPLAY_DIR"):
    EVIDENCE_DIR = os.path.join(os.environ["PV_REPLAY_DIR"], "evidence")   # runs against scratch copies never overwrite the evidence
KNOWN_FINDINGS = os.path.join(env.VERIF, "known_findings.json")


def load_check(cid):
    return importlib.import_module("pv.checks.%s" % cid.lower())


def case_rng(seed, cid, idx):
    return random.Random("%s/%s/%d" % (seed, cid, idx))


class Ctx:
    """Per-worker context handed to the check: counters, samples, violations, known-finding hits."""

    def __init__(self, cid, tier, seed, hashseed):
        self.cid, self.tier, self.seed, self.hashseed = cid, tier, seed, hashseed
        self.counters = collections.Counter()
        self.samples = []
        self.violations = []
        self.known = collections.Counter()
        self.known_examples = {}
        self.hashes = set()
        self.evaluations = 0
        self.extra = {}

    def count(self, key, n=1):
        self.counters[key] += n

    def sample(self, obj, limit=3):
        if len(self.samples) < limit:
            self.samples.append(obj)

    def violation(self, idx, what, payload, witness):
        if len(self.violations) < 20:
            self.violations.append({"idx": idx, "what": what, "payload": payload, "witness": witness})
        self.count("violations")

    def known_finding(self, fid, what, example=None):
        self.known[fid] += 1
        if fid not in self.known_examples:
            self.known_examples[fid] = {"what": what, "example": example}


# ---------------------------------------------------------------------------------------------
# worker side
# ---------------------------------------------------------------------------------------------
def worker_main(argv):
    cid, tier, seed, shard, nshards, ncases, out = argv[0], argv[1], int(argv[2]), int(argv[3]), int(argv[4]), int(argv[5]), argv[6]
    env.activate()
    mod = load_check(cid)
    ctx = Ctx(cid, tier, seed, os.environ.get("PYTHONHASHSEED"))
    ctx.shard, ctx.nshards = shard, nshards
    t0 = time.time()
    status = "ok"
    try:
        if hasattr(mod, "setup_worker"):
            mod.setup_worker(ctx)
        deadline = t0 + float(os.environ.get("PV_SOFT_DEADLINE", "1e9"))
        for idx in range(shard, ncases, nshards):
            if time.time() > deadline:
                ctx.count("soft_deadline_cut")
                break
            ctx.evaluations += 1
            try:
                mod.run_case(ctx, idx)
            except Exception:
                # a crash of the harness itself is never a verdict on the library
                ctx.count("harness_errors")
                ctx.extra.setdefault("harness_tracebacks", []).append({"idx": idx, "tb": traceback.format_exc()[-1500:]})
        if hasattr(mod, "finish_worker"):
            mod.finish_worker(ctx)
    except Exception:
        status = "crash"
        ctx.extra["worker_crash"] = traceback.format_exc()[-3000:]
    res = {
        "status": status, "shard": shard, "evaluations": ctx.evaluations, "counters": dict(ctx.counters),
        "samples": ctx.samples, "violations": ctx.violations, "known": dict(ctx.known),
        "known_examples": ctx.known_examples, "hashes": sorted(ctx.hashes), "extra": ctx.extra,
        "wall_s": time.time() - t0, "hashseed": ctx.hashseed,
    }
    with open(out, "w") as f:
        json.dump(res, f, default=repr)


# ---------------------------------------------------------------------------------------------
# parent side
# ---------------------------------------------------------------------------------------------
def _merge_extra(dst, src):
    for k, v in src.items():
        if k == "distinct_sets":
            d = dst.setdefault(k, {})
            for name, lst in v.items():
                d.setdefault(name, set()).update(lst)
        elif isinstance(v, dict):
            d = dst.setdefault(k, {})
            if isinstance(d, dict):
                for kk, vv in v.items():
                    if isinstance(vv, (int, float)) and not isinstance(vv, bool):
                        d[kk] = d.get(kk, 0) + vv
                    elif isinstance(vv, list):
                        d[kk] = sorted(set(d.get(kk, [])) | set(vv))[:400]
                    else:
                        d.setdefault(kk, vv)
        elif isinstance(v, list):
            dst.setdefault(k, [])
            if len(dst[k]) < 6:
                dst[k].extend(v[: 6 - len(dst[k])])
        elif isinstance(v, (int, float)) and not isinstance(v, bool):
            dst[k] = dst.get(k, 0) + v
        else:
            dst.setdefault(k, v)


def run_check(cid, tier, seed):
    mod = load_check(cid)
    t0 = time.time()
    plan = mod.plan(tier, seed)
    ncases = plan["cases"]
    hashseeds = plan.get("hashseeds", [0])
    nshards = max(1, min(NCPU, plan.get("max_workers", NCPU), ncases))
    workdir = os.path.join(env.VERIF, ".work", "%s-%s-%d" % (cid, tier, os.getpid()))
    os.makedirs(workdir, exist_ok=True)
    procs = []
    timeout = plan.get("timeout_s", 600)
    for sh in range(nshards):
        out = os.path.join(workdir, "shard%d.json" % sh)
        e = dict(os.environ)
        e["PYTHONHASHSEED"] = str(hashseeds[sh % len(hashseeds)])
        e["PYTHONPATH"] = os.path.join(env.VERIF, "lib")
        e["PV_SOFT_DEADLINE"] = str(plan.get("soft_deadline_s", timeout * 0.8))
        e.setdefault("TMPDIR", workdir)
        cmd = [env.PYTHON, "-m", "pv.runner", "--worker", cid, tier, str(seed), str(sh), str(nshards), str(ncases), out]
        procs.append((sh, out, subprocess.Popen(cmd, env=e, stdout=subprocess.PIPE, stderr=subprocess.STDOUT)))
    results, problems = [], []
    for sh, out, p in procs:
        left = max(1.0, t0 + timeout - time.time())
        try:
            so, _ = p.communicate(timeout=left)
        except subprocess.TimeoutExpired:
            p.kill()
            p.communicate()
            problems.append("worker %d exceeded the %ds watchdog" % (sh, timeout))
            continue
        if p.returncode != 0 or not os.path.exists(out):
            problems.append("worker %d exited %s: %s" % (sh, p.returncode, (so or b"").decode(errors="replace")[-600:]))
            continue
        with open(out) as f:
            r = json.load(f)
        if r["status"] != "ok":
            problems.append("worker %d crashed: %s" % (sh, r["extra"].get("worker_crash", "?")[-800:]))
        results.append(r)
    # merge
    counters = collections.Counter()
    hashes, samples, violations, known, known_examples, extra = set(), [], [], collections.Counter(), {}, {}
    evaluations = 0
    for r in results:
        evaluations += r["evaluations"]
        counters.update(r["counters"])
        hashes.update(r["hashes"])
        for s in r["samples"]:
            if len(samples) < 4:
                samples.append(s)
        violations.extend(r["violations"])
        known.update(r["known"])
        for k, v in r["known_examples"].items():
            known_examples.setdefault(k, v)
        _merge_extra(extra, r["extra"])
    if hasattr(mod, "extra_stage"):
        try:
            xc, xv = mod.extra_stage(tier, seed, os.path.join(workdir, "extra"))
            counters.update(xc)
            violations.extend(xv)
        except Exception:
            problems.append("extra stage failed: %s" % traceback.format_exc()[-600:])
    if counters.get("harness_errors"):
        problems.append("%d harness errors (see evidence.harness_tracebacks)" % counters["harness_errors"])
    if counters.get("soft_deadline_cut"):
        problems.append("soft deadline cut the workload short in %d workers" % counters["soft_deadline_cut"])
    floors = mod.floors(counters, tier, extra) if hasattr(mod, "floors") else []
    problems.extend("floor missed: %s" % f for f in floors)
    if evaluations == 0:
        problems.append("no case was evaluated")
    if len(hashes) < 2:
        problems.append("fewer than 2 distinct non-trivial cases")
    wall = time.time() - t0
    # known findings file is read-only at run time
    listed = {}
    if os.path.exists(KNOWN_FINDINGS):
        with open(KNOWN_FINDINGS) as f:
            for ent in json.load(f).get("findings", []):
                if ent.get("status") == "open":
                    listed[ent["id"]] = ent
    unlisted = [k for k in known if k not in listed]
    for k in unlisted:  # a finding the file does not list is a violation, never suppressed
        violations.append({"idx": -1, "what": "attributed to finding %s which known_findings.json does not list as open" % k,
                           "payload": known_examples.get(k), "witness": None})
    os.makedirs(REPLAY_DIR, exist_ok=True)
    replay_paths = []
    for v in violations[:10]:
        name = "%s-%s-%s-%s.json" % (cid, tier, seed, v["idx"])
        path = os.path.join(REPLAY_DIR, name)
        with open(path, "w") as f:
            json.dump({"property": cid, "tier": tier, "seed": seed, "idx": v["idx"], "what": v["what"],
                       "payload": v["payload"], "witness": v["witness"],
                       "tree": env.tree_identity()}, f, indent=1, default=repr, ensure_ascii=False)
        replay_paths.append(path)
    coverage = {
        "evaluations": evaluations,
        "distinct_nontrivial": len(hashes),
        "rule": plan["rule"],
        "samples": samples or [{"note": "no sample recorded"}],
        "observed": {k: counters[k] for k in sorted(counters)},
        "known_finding_hits": dict(known),
        "workers": nshards, "hashseeds": hashseeds,
    }
    if "cov_all" in extra:
        cov = {}
        for label, lines in extra["cov_all"].items():
            hit = set(extra.get("cov_hit", {}).get(label, []))
            cov[label] = {"lines_executed": len(hit & set(lines)), "lines_total": len(lines),
                          "never_executed": sorted(set(lines) - hit)}
        coverage["anchored_function_coverage"] = cov
    for k, v in extra.items():
        if k == "distinct_sets":
            coverage["distinct_observed"] = {name: len(x) for name, x in v.items()}
        elif k not in ("harness_tracebacks", "worker_crash", "cov_all", "cov_hit"):
            coverage[k] = v
    if extra.get("harness_tracebacks"):
        coverage["harness_tracebacks"] = extra["harness_tracebacks"][:3]
    verdict = "violated" if violations else ("inconclusive" if problems else "held")
    coverage["verdict"] = verdict
    coverage["problems"] = problems
    ev = {
        "property_id": cid, "tier": tier, "seed": seed, "level": mod.LEVEL, "coverage": coverage,
        "assumptions": plan.get("assumptions", []), "wall_s": round(wall, 2), "violations": len(violations),
        "tree": env.tree_identity(), "tools": env.tool_versions(),
    }
    os.makedirs(EVIDENCE_DIR, exist_ok=True)
    with open(os.path.join(EVIDENCE_DIR, "%s.json" % cid), "w") as f:
        json.dump(ev, f, indent=1, default=repr, ensure_ascii=False, sort_keys=False)
    # clean scratch
    try:
        import shutil
        shutil.rmtree(workdir, ignore_errors=True)
    except Exception:
        pass
    print("%s %s seed=%d: %d evaluations, %d distinct non-trivial, %.1fs, verdict=%s" % (cid, tier, seed, evaluations, len(hashes), wall, verdict))
    for fid, n in sorted(known.items()):
        if fid in listed:
            print("KNOWN-FINDING: property=%s %s: %s (%d cases this run)" % (cid, fid, listed[fid].get("summary") or listed[fid]["what"], n))
    if violations:
        for v, pth in zip(violations, replay_paths):
            print("  violation: %s" % str(v["what"])[:300])
            print("VIOLATION property=%s replay=%s" % (cid, pth))
        return 1
    if problems:
        for p in problems:
            print("INCONCLUSIVE property=%s reason=%s" % (cid, p.replace("\n", " | ")[:700]))
        return 2
    return 0


def replay(cid, path):
    env.activate()
    mod = load_check(cid)
    with open(path) as f:
        rec = json.load(f)
    ctx = Ctx(cid, rec.get("tier", "quick"), rec.get("seed", 0), os.environ.get("PYTHONHASHSEED"))
    ctx.shard, ctx.nshards = 0, 1
    if hasattr(mod, "setup_worker"):
        mod.setup_worker(ctx)
    if hasattr(mod, "replay"):
        mod.replay(ctx, rec)
    else:
        mod.run_case(ctx, rec["idx"])
    if ctx.violations:
        for v in ctx.violations:
            print("  violation: %s" % str(v["what"])[:600])
            print(json.dumps(v["witness"], indent=1, default=repr, ensure_ascii=False)[:3000])
        print("VIOLATION property=%s replay=%s" % (cid, path))
        return 1
    print("replay of %s: no violation reproduced (known-finding hits: %s)" % (path, dict(ctx.known)))
    return 0


def main(argv=None):
    argv = list(sys.argv[1:] if argv is None else argv)
    if argv and argv[0] == "--worker":
        worker_main(argv[1:])
        return 0
    import argparse

    ap = argparse.ArgumentParser(prog="check")
    ap.add_argument("property")
    ap.add_argument("--tier", default=os.environ.get("VERIF_TIER", "quick"), choices=["quick", "thorough"])
    ap.add_argument("--seed", type=int, default=int(os.environ.get("VERIF_SEED", "0") or 0))
    ap.add_argument("--replay")
    a = ap.parse_args(argv)
    cid = a.property.upper()
    if a.replay:
        return replay(cid, a.replay)
    return run_check(cid, a.tier, a.seed)


if __name__ == "__main__":
    sys.exit(main())
