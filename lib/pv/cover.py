"""COV: which lines of the anchored functions did the workload execute?  (sys.monitoring, 3.12+)

LINE events are enabled locally on the code objects of the anchored functions only and every
(code, line) location disables itself after its first hit, so the cost is negligible.
"""
import sys

TOOL = 3  # sys.monitoring tool id (0-5); 3 is free for applications


class Cover:
    def __init__(self):
        self.codes = {}   # code object -> label
        self.hit = {}     # label -> set(lines)
        self.on = False

    def add(self, label, func):
        code = getattr(func, "__code__", None)
        if code is None and isinstance(func, (staticmethod, classmethod)):
            code = func.__func__.__code__
        if code is None:
            return
        self._add_code(label, code)

    def _add_code(self, label, code):
        self.codes[code] = label
        self.hit.setdefault(label, set())
        for c in code.co_consts:
            if hasattr(c, "co_code"):
                self._add_code(label, c)

    def start(self):
        if not hasattr(sys, "monitoring") or self.on:
            return
        mon = sys.monitoring
        try:
            mon.use_tool_id(TOOL, "pv-cover")
        except ValueError:
            return
        mon.register_callback(TOOL, mon.events.LINE, self._line)
        for code in self.codes:
            mon.set_local_events(TOOL, code, mon.events.LINE)
        self.on = True

    def _line(self, code, line):
        label = self.codes.get(code)
        if label is not None:
            self.hit[label].add(line)
        return sys.monitoring.DISABLE

    def report(self):
        total = {}
        for code, label in self.codes.items():
            s = total.setdefault(label, set())
            for _s, _e, ln in code.co_lines():
                if ln is not None and ln != code.co_firstlineno:
                    s.add(ln)
        out = {}
        for label, lines in total.items():
            hit = self.hit.get(label, set()) & lines
            out[label] = {"lines_hit": sorted(hit), "lines_total": len(lines), "lines_missed": sorted(lines - hit)}
        return out


def merged_report(extra_cov):
    """extra_cov: {label: {"lines_hit": [...], "lines_total": n}} merged over workers by the runner."""
    return extra_cov


def anchored(spec):
    """spec: list of 'module:qualname' strings -> Cover with those functions registered."""
    import importlib

    c = Cover()
    for s in spec:
        modname, qual = s.split(":")
        obj = importlib.import_module(modname)
        raw = None
        for part in qual.split("."):
            raw = obj.__dict__.get(part) if hasattr(obj, "__dict__") and part in getattr(obj, "__dict__", {}) else None
            obj = getattr(obj, part)
        target = raw if raw is not None else obj
        target = getattr(target, "__wrapped__", target)
        if isinstance(target, property):
            target = target.fget
        c.add(s, target)
    return c
