"""Known findings: genuine defects of the library that are recorded rather than repaired.

A failing case is attributed to a finding only if
  (1) the finding is listed as open in /verif/known_findings.json (read-only at run time),
  (2) its trigger predicate matches the case (the specific input class / call site), and
  (3) the violation disappears when exactly that trigger is neutralised and the case is re-judged.
Anything else stays a VIOLATION.  Findings are keyed by mechanism, never by seed or hash.
"""
import copy
import json
import os

from pv import env

_PATH = os.path.join(env.VERIF, "known_findings.json")


def _open_ids():
    try:
        with open(_PATH) as f:
            return {e["id"]: e for e in json.load(f).get("findings", []) if e.get("status") == "open"}
    except FileNotFoundError:
        return {}


OPEN = _open_ids()

# id -> (properties, trigger(case) -> bool, neutralise(case) -> new case)
REGISTRY = {}


def finding(fid, properties):
    def deco(cls):
        REGISTRY[fid] = (set(properties), cls.trigger, cls.neutralise)
        return cls

    return deco


def attribute(cid, case, rejudge):
    """rejudge(case) -> list of problems (empty when the property holds on that case).
    One finding alone is tried first; when several open findings are triggered by the same case (two mechanisms in one document), the
    case is attributed -- to the first of them -- only if it passes once *all* the triggered ones are neutralised together."""
    matched = []
    for fid, (props, trigger, neutralise) in REGISTRY.items():
        if fid not in OPEN or cid not in props:
            continue
        try:
            if not trigger(case):
                continue
            neutral = neutralise(copy.deepcopy(case))
            if neutral is None:
                continue
            matched.append((fid, neutralise))
            if not rejudge(neutral):
                return fid
        except Exception:
            continue
    if len(matched) > 1:
        try:
            neutral = copy.deepcopy(case)
            for _fid, neutralise in matched:
                nxt = neutralise(neutral)
                neutral = nxt if nxt is not None else neutral
            if not rejudge(neutral):
                return matched[0][0]
        except Exception:
            pass
    return None


def walk_specs(x, fn):
    """Apply fn to every dict in a nested program structure (in place)."""
    if isinstance(x, dict):
        fn(x)
        for v in list(x.values()):
            walk_specs(v, fn)
    elif isinstance(x, list):
        for v in x:
            walk_specs(v, fn)


# ---------------------------------------------------------------------------------------------------------
# KF-C07-1 (D22): PROV-O reader folds an unqualified association/delegation into an anonymous *qualified* one of the same
# subject (it treats the binary triple as the shorthand of the qualified pattern), so one of the two relations is lost and,
# when their agents differ, the qualified relation's agent is overwritten.
# ---------------------------------------------------------------------------------------------------------
def _kf_c07_groups(case):
    groups = {}
    for op in case.get("ops", []):
        if op[0] == "rec" and op[2] in ("Association", "Delegation") and op[3] is None:
            formals = {"Association": ["activity", "agent", "plan"], "Delegation": ["delegate", "responsible", "activity"]}[op[2]]
            subj = op[4].get(formals[0])
            if subj is None:
                continue
            qualified = bool(op[5]) or any(f in op[4] for f in formals[2:])
            groups.setdefault((op[1], op[2], repr(sorted(subj.items()))), []).append((op, qualified, formals[0]))
    return {k: v for k, v in groups.items() if len(v) > 1 and any(q for _o, q, _f in v)}


@finding("KF-C07-1", ["C07"])
class _KF_C07_1:
    @staticmethod
    def trigger(case):
        return bool(_kf_c07_groups(case))

    @staticmethod
    def neutralise(case):
        n = 0
        for _k, members in _kf_c07_groups(case).items():
            for op, qualified, f0 in members:
                if not qualified:
                    n += 1
                    spec = dict(op[4][f0])
                    if "s" in spec:
                        spec["s"] = spec["s"] + "_kf%d" % n
                    else:
                        spec["local"] = spec.get("local", "x") + "_kf%d" % n
                    op[4][f0] = spec
            # several qualified ones with one subject and no unqualified one do not trigger the defect
        return case if n else None


# ---------------------------------------------------------------------------------------------------------
# KF-C10-1: same root as KF-C01-1 (add_bundle() leaves the identifier of a stand-alone bundle a name of the bundle's own scope), seen
# by a reader written from the PROV-JSON specification: the key of the document-level "bundle" object is then printed with a prefix
# that only the bundle's own "prefix" map declares (or that the document's map binds to another URI).
# ---------------------------------------------------------------------------------------------------------
def bundle_scope_finding(cid, st, notes):
    """KF-C10-1 for the texts in which a bundle identifier is a document-level name (PROV-JSON 'bundle' keys, PROV-N bundle headers).
    notes: the independent reader's notes.  Returns the finding id iff the finding is open and *every* bundle identifier that does not
    resolve (to the same URI) with the document's own declarations belongs to a bundle that was created stand-alone and attached with
    add_bundle() -- the call site of the finding.  Any other bundle with such an identifier stays a violation."""
    if "KF-C10-1" not in OPEN or cid not in ("C10", "C06"):
        return None
    offending = {x[1] for x in notes.get("bundle_ids_outside_document_scope", [])} | {x[1] for x in notes.get("ambiguous_bundle_ids", [])}
    if not offending:
        return None
    attached = set()
    for t in st.standalone:
        b = st.tg.get(t)
        if b is not None and t not in st.detached and b.identifier is not None:
            attached.add(b.identifier.uri)
    return "KF-C10-1" if offending <= attached else None


# ---------------------------------------------------------------------------------------------------------
# KF-C01-1: a bundle's identifier is a name in the *bundle's* scope for the library (add_bundle() resolves it there, PROV-XML
# carries it on the element that holds the bundle's own declarations) but PROV-JSON writes it as a key of the document-level
# "bundle" object.  When a stand-alone bundle that binds a prefix differently from the document is attached with add_bundle(),
# two bundles of one document can print their (different) identifiers identically; the second then overwrites the first in the
# PROV-JSON "bundle" object and a whole bundle is lost.
# ---------------------------------------------------------------------------------------------------------
def _kf_c01_colliding(case):
    from pv import interp
    doc = interp.run(case["ops"]).doc
    seen = {}
    for b in doc.bundles:
        seen.setdefault(str(b.identifier), set()).add(b.identifier.uri)
    return {k for k, v in seen.items() if len(v) > 1}


@finding("KF-C01-1", ["C01", "C10", "C04"])
class _KF_C01_1:
    @staticmethod
    def trigger(case):
        if not any(op[0] == "attach" for op in case.get("ops", [])):
            return False
        return bool(_kf_c01_colliding(case))

    @staticmethod
    def neutralise(case):
        # give every bundle a distinct local name, so that equal prefixes can no longer make two identifiers print alike
        n = 0
        for op in case["ops"]:
            if op[0] in ("bundle", "sbundle", "attach") and isinstance(op[2], dict):
                n += 1
                spec = op[2]
                if "local" in spec:
                    spec["local"] = "%s_kf%d" % (spec["local"], n)
                elif "s" in spec:
                    spec["s"] = "%s_kf%d" % (spec["s"], n)
        return case if n else None


# ---------------------------------------------------------------------------------------------------------
# KF-C01-2: one hadMember record can hold several prov:entity values (new_record() in a single call, or the PROV-XML reader for
# several <prov:entity> children).  PROV-XML writes all of them; the PROV-JSON writer stores them under one dict key, so only one
# member reaches the text (its own reader, in the other direction, turns an array of members into several records).
# ---------------------------------------------------------------------------------------------------------
def _extra_member_pairs(op):
    return [x for x in op[5] if isinstance(x[0], dict) and x[0].get("s") == "prov:entity"] if op[0] == "rec" and op[2] == "Membership" else []


@finding("KF-C01-2", ["C01", "C10"])
class _KF_C01_2:
    @staticmethod
    def trigger(case):
        return case.get("fmt", "json") == "json" and any(_extra_member_pairs(op) for op in case.get("ops", []))

    @staticmethod
    def neutralise(case):
        n = 0
        for op in case["ops"]:
            extra = _extra_member_pairs(op)
            if extra:
                op[5] = [x for x in op[5] if x not in extra]
                n += 1
        return case if n else None
