"""Known findings: genuine defects of the library that are recorded rather than repaired.

A failing case is attributed to a finding only if
  (1) the finding is listed as open in /verif/known_findings.json (read-only at run time),
  (2) its trigger predicate matches the case (the specific input class / call site), and
  (3) the violation disappears when exactly that trigger is neutralised and the case is re-judged.
Anything else stays a VIOLATION.  Findings are keyed by mechanism, never by seed or hash.
"""
import copy
import json
import os

from pv import env

_PATH = os.path.join(env.VERIF, "known_findings.json")


def _open_ids():
    try:
        with open(_PATH) as f:
            return {e["id"]: e for e in json.load(f).get("findings", []) if e.get("status") == "open"}
    except FileNotFoundError:
        return {}


OPEN = _open_ids()

# id -> (properties, trigger(case) -> bool, neutralise(case) -> new case)
REGISTRY = {}


def finding(fid, properties):
    def deco(cls):
        REGISTRY[fid] = (set(properties), cls.trigger, cls.neutralise)
        return cls

    return deco


def attribute(cid, case, rejudge):
    """rejudge(case) -> list of problems (empty when the property holds on that case)."""
    for fid, (props, trigger, neutralise) in REGISTRY.items():
        if fid not in OPEN or cid not in props:
            continue
        try:
            if not trigger(case):
                continue
            neutral = neutralise(copy.deepcopy(case))
            if neutral is None:
                continue
            if not rejudge(neutral):
                return fid
        except Exception:
            continue
    return None


def walk_specs(x, fn):
    """Apply fn to every dict in a nested program structure (in place)."""
    if isinstance(x, dict):
        fn(x)
        for v in list(x.values()):
            walk_specs(v, fn)
    elif isinstance(x, list):
        for v in x:
            walk_specs(v, fn)
