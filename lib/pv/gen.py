"""Seeded workload generator: *programs* over the public prov API.

A program is a JSON-serialisable list of operations (see DESIGN.md section 3) that the interpreter
(pv.interp) executes against a fresh ProvDocument.  The generator keeps a rough shadow of what it
has declared only to keep most operations meaningful; it never predicts what the library answers
and no oracle depends on the shadow.
"""
import datetime
import random

NS_URIS = [
    "http://ex.org/", "http://ex.org/sub/", "http://ex.org/sub#", "urn:x:",
    "http://other.org/ns#", "http://ex.org", "https://w3id.org/é/",
]
NS_URIS_ASCII = [u for u in NS_URIS if u.isascii()]
PREFIXES = ["ex", "ex2", "other", "ex_1", "dn", "p", "Q-1", "ex_2", "zz", "dn_1", "xsd", "prov", "xsi"]
LOCALS = ["e1", "e2", "a1", "a2", "ag1", "b/1", "x.y", "x-y", "été", "_u", "1st", "r1", "r2", "c1", "pl1", "e11", "a%20b", "007",
          "L" + "o" * 240 + "ng"]
ATTR_LOCALS = ["tag", "tag2", "v", "n_1", "été", "time", "endTime", "type", "label"]   # incl. local names PROV uses itself
PROV_EXTRA = ["type", "label", "value", "location", "role"]
PROV_UNKNOWN = ["generatedAtTime", "atTime", "note", "Timeline"]   # names in the PROV namespace that PROV-DM does not define as attributes

# kind -> (factory name, formal attribute local names in order)
KINDS = {
    "Entity": ("entity", []),
    "Activity": ("activity", ["startTime", "endTime"]),
    "Agent": ("agent", []),
    "Generation": ("generation", ["entity", "activity", "time"]),
    "Usage": ("usage", ["activity", "entity", "time"]),
    "Communication": ("communication", ["informed", "informant"]),
    "Start": ("start", ["activity", "trigger", "starter", "time"]),
    "End": ("end", ["activity", "trigger", "ender", "time"]),
    "Invalidation": ("invalidation", ["entity", "activity", "time"]),
    "Derivation": ("derivation", ["generatedEntity", "usedEntity", "activity", "generation", "usage"]),
    "Attribution": ("attribution", ["entity", "agent"]),
    "Association": ("association", ["activity", "agent", "plan"]),
    "Delegation": ("delegation", ["delegate", "responsible", "activity"]),
    "Influence": ("influence", ["influencee", "influencer"]),
    "Specialization": ("specialization", ["specificEntity", "generalEntity"]),
    "Alternate": ("alternate", ["alternate1", "alternate2"]),
    "Mention": ("mention", ["specificEntity", "generalEntity", "bundle"]),
    "Membership": ("membership", ["collection", "entity"]),
}
ELEMENTS = ("Entity", "Activity", "Agent")
TIME_ATTRS = {"time", "startTime", "endTime"}
NO_ID_FACTORY = {"Specialization", "Alternate", "Mention", "Membership"}  # factory takes no identifier/attributes
# subtype factories: name -> (base kind, asserted prov:type local)
SUBTYPE_FACTORIES = {
    "revision": ("Derivation", "Revision"),
    "quotation": ("Derivation", "Quotation"),
    "primary_source": ("Derivation", "PrimarySource"),
    "collection": ("Entity", "Collection"),
}
# element convenience methods: relation kind -> (class of the receiver, method name)
CONVENIENCE = {
    "Generation": ("Entity", "wasGeneratedBy"),
    "Invalidation": ("Entity", "wasInvalidatedBy"),
    "Derivation": ("Entity", "wasDerivedFrom"),
    "Attribution": ("Entity", "wasAttributedTo"),
    "Alternate": ("Entity", "alternateOf"),
    "Specialization": ("Entity", "specializationOf"),
    "Membership": ("Entity", "hadMember"),
    "Usage": ("Activity", "used"),
    "Communication": ("Activity", "wasInformedBy"),
    "Start": ("Activity", "wasStartedBy"),
    "End": ("Activity", "wasEndedBy"),
    "Association": ("Activity", "wasAssociatedWith"),
    "Delegation": ("Agent", "actedOnBehalfOf"),
}
PROV_CLASS_TYPES = ["Person", "Organization", "SoftwareAgent", "Plan", "Collection", "EmptyCollection",
                    "Revision", "Quotation", "PrimarySource", "Bundle", "Entity"]

SUBTYPES_OF = {"Agent": ["Person", "Organization", "SoftwareAgent"], "Entity": ["Plan", "Collection", "EmptyCollection", "Bundle"],
               "Derivation": ["Revision", "Quotation", "PrimarySource"]}

STR_COMMON = ["", "a", "hello world", 'q"uote', "back\\slash", "new\nline", "tab\there", "é中\U0001F600",
              "<b>&amp;</b>", "prov:foo", "ex:bar", "  lead", "trail  ", "'single'", 'a"""b', "1", "true", "]]>",
              "{x}", "%s %d", " ", "end\\", 'end"', " sep", "<i>x</i>", "a&b", "line1\nline2\n", "\\n", "1.0", "-",
              'She wrote:\n"see you"', 'x\n"', '"""\n', '\n""', "\n\\", "\t",
              # strings that look like values of another type, and the edges of the string domain
              "2020-01-01T00:00:00", "_:b1", "http://x.org/y", "1e3", "-0", "+1", "007", "NaN", "INF", "false", "e\u0301", "\u05e9\u05dc\u05d5\u05dd",
              "\u200f\u202eabc", "x" * 5000, "\u2028sep", "   ", "\n", "AT&T; Mobility", "&alpha; &#0; &#xD800;", "\u212b\u2126", "mid\ufeffdle"]
STR_NON_XML = ["a\rb", "c\r\nd", "ctl\x01", "del\x7f", "nul\x00x", "￾"]

DEFAULT_PROFILE = dict(
    max_steps=14, max_bundles=2, p_default_doc=0.3, p_default_bundle=0.3, p_clash=0.3,
    value_kinds=("str", "int", "float", "bool", "dt", "uri", "qn", "lang", "lit", "litnative"),
    kinds=tuple(KINDS), subtype_factories=True, locals=LOCALS, attr_locals=ATTR_LOCALS,
    ns_uris=NS_URIS, prefixes=PREFIXES, strings=STR_COMMON + STR_NON_XML,
    name_forms=("qn", "str", "local", "uri"), p_anon=0.4, p_missing_endpoint=0.1, p_repeat_id=0.25,
    p_extra=0.6, p_interleave_ns=0.15, p_attrs_op=0.12, label_plain=False, qname_literal=True,
    custom_datatypes=True, p_record_ref=0.2, p_conv=0.15, p_multi_value=0.25, p_prov_class_type=0.3,
    mandatory_args=False, bare_relations=False, uris=("http://x.org/y", "urn:a:b", "http://x.org/a b", "mailto:a@b",
                                                       "http://ex.org/e1", "x", "http://x.org/é", "prov:looks-like-a-name", "ex:also"),
    tz_minutes=(None, None, 0, 60, -300, 330, 765, -720, 840, 1, -1, 839, -210, -570), empty_prefix_qn=0.08, p_big=0.01, p_storm=0.03,
)

PROFILES = {
    "c01": {},
    "c02": dict(strings=[s for s in STR_COMMON if " " not in s or True], ns_uris=NS_URIS_ASCII,
                label_plain=True, qname_literal=False),
    "c06": dict(strings=STR_COMMON, locals=[l for l in LOCALS if all(ch.isalnum() or ch in "_-./" for ch in l)], bare_relations=True,
                mandatory_args=True),
    "c14": dict(max_bundles=0, p_repeat_id=0.4, p_missing_endpoint=0.15, p_dup=0.12),
    "c15": dict(strings=[s for s in STR_COMMON] + ["<i>x</i>", "a<b", "x>y", "R&D", "\\N", "\\G\\l", "&lt;"], p_repeat_id=0.3,
                ns_uris=NS_URIS_ASCII, p_label=0.5),
    "c08": dict(p_repeat_id=0.6, max_steps=16),
}


def profile(name, **over):
    p = dict(DEFAULT_PROFILE)
    p.update(PROFILES.get(name, {}))
    p.update(over)
    return p


class Gen:
    def __init__(self, seed, prof=None, **over):
        self.r = seed if isinstance(seed, random.Random) else random.Random(seed)
        self.p = dict(prof or DEFAULT_PROFILE)
        self.p.update(over)
        self.nrec = 0
        self.scopes = {}
        self.targets = []
        self.used_ids = []
        self.rec_labels = []  # (label, kind, target)
        self.pending_attach = []

    # ---- values ------------------------------------------------------------------------------
    def rand_str(self):
        return self.r.choice(self.p["strings"])

    def rand_dt(self):
        r = self.r
        y = r.choice([1, 99, 999, 1970, 2000, 2024, 9999]) if r.random() < 0.2 else r.randint(1900, 2100)
        dt = datetime.datetime(y, r.randint(1, 12), r.randint(1, 28), r.randint(0, 23), r.randint(0, 59),
                               r.randint(0, 59), r.choice([0, 0, 1, 500000, 999999, 123456]))
        x = r.random()
        if x < 0.05:
            dt = dt.replace(hour=0, minute=0, second=0, microsecond=0)            # midnight
        elif x < 0.08:
            dt = dt.replace(year=2024 if y < 1000 or y > 9000 else (y // 4) * 4 if ((y // 4) * 4) % 100 else 2000, month=2, day=29)   # a leap day
        elif x < 0.11:
            dt = dt.replace(hour=23, minute=59, second=59, microsecond=999999)
        tz = r.choice(self.p["tz_minutes"])
        if tz is not None and (y == 1 or y == 9999):
            tz = 0  # keep the instant representable
        return {"k": "dt", "iso": dt.isoformat(), "tz": tz}

    def rand_value(self, scope, kinds=None):
        r = self.r
        k = r.choice(kinds or self.p["value_kinds"])
        if k == "str":
            return {"k": "str", "v": self.rand_str()}
        if k == "int":
            return {"k": "int", "v": r.choice([0, 1, -1, 42, 2 ** 31, -2 ** 63, 2 ** 70, r.randint(-10 ** 6, 10 ** 6), 2 ** 31 - 1, -2 ** 31 - 1,
                                               2 ** 53 + 1, 2 ** 63 - 1, 2 ** 63, 10 ** 30])}
        if k == "float":
            return {"k": "float", "v": r.choice([0.0, -0.0, 1.0, 1.5, 0.1 + 0.2, 1e300, 5e-324, -2.5e-7, 1e16,
                                                 123456789.123456789, 1e22, 1 / 3, 100.0, 2.5e-5, 2.2250738585072014e-308, 1.7976931348623157e308,
                                                 4.9e-324, 9007199254740993.0, 1e21, 1e-7, 0.1, -1e-320])}
        if k == "bool":
            return {"k": "bool", "v": r.random() < 0.5}
        if k == "dt":
            return self.rand_dt()
        if k == "uri":
            return {"k": "uri", "v": r.choice(self.p["uris"])}
        if k == "qn":
            return {"k": "qn", "name": self.rand_name(scope, forms=("qn",))}
        if k == "lang":
            return {"k": "lang", "v": self.rand_str(), "lang": r.choice(["en", "fr", "en-GB", "zh-Hans", "EN", "x-private", "de-CH-1996", "sr-Latn-RS"])}
        if k == "lit":
            lex = {"short": "7", "decimal": "1.50", "float": "1.5", "gYear": "2002", "integer": "10",
                   "hexBinary": "0FB7", "date": "2020-01-02", "unsignedByte": "255", "token": "a b"}
            if self.p["qname_literal"]:
                lex["QName"] = "ex:q"
            if self.p["custom_datatypes"] and self.p.get("istr_nolang", True) and r.random() < 0.06:
                # the datatype a language tag implies, given explicitly and without a tag
                return {"k": "lit", "v": self.rand_str(), "dt": {"form": "prov", "local": "InternationalizedString"}}
            if self.p["custom_datatypes"] and r.random() < 0.35:
                seen = self.__dict__.setdefault("custom_lits", [])
                if seen and r.random() < 0.45:
                    import copy
                    return copy.deepcopy(r.choice(seen))     # the same constant used again (possibly in another container)
                lit = {"k": "lit", "v": self.rand_str(), "dt": self.rand_name(scope, forms=("qn",), locals_=["dt", "T1"])}
                seen.append(lit)
                return lit
            t = r.choice(sorted(lex))
            return {"k": "lit", "v": lex[t], "dt": {"form": "xsd", "local": t}}
        if k == "litnative":
            which = r.choice(["int", "long", "double", "boolean", "string", "anyURI", "dateTime"])
            lex = {"int": str(r.randint(-99, 99)), "long": str(2 ** 40), "double": repr(r.choice([1.5, 2.0, 1e10])),
                   "boolean": r.choice(["true", "false", "1", "0"]), "string": self.rand_str(),
                   "anyURI": "http://x.org/y", "dateTime": "2012-03-04T05:06:07"}[which]
            return {"k": "lit", "v": lex, "dt": {"form": "xsd", "local": which}}
        raise AssertionError(k)

    # ---- names -------------------------------------------------------------------------------
    def view(self, t):
        """Shadow prefix table visible from target t (own declarations override the document's)."""
        sc = self.scopes[t]
        if t == "D":
            return dict(sc["declared"])
        v = dict(self.scopes["D"]["declared"])
        v.update(sc["declared"])
        return v

    def eff_default(self, t):
        sc = self.scopes[t]
        return sc["default"] or (self.scopes["D"]["default"] if t != "D" else None)

    def rand_name(self, t, forms=None, locals_=None):
        r = self.r
        forms = forms or self.p["name_forms"]
        local = r.choice(locals_ or self.p["locals"])
        form = r.choice(forms)
        declared = self.view(t) if isinstance(t, str) else t
        default = self.eff_default(t) if isinstance(t, str) else None
        if form == "str" and declared:
            pfx = r.choice(sorted(declared))
            return {"form": "str", "s": "%s:%s" % (pfx, local)}
        if form == "local" and default:
            if isinstance(t, str):
                self.scopes[t]["bare_used"] = True
            return {"form": "local", "s": local}
        if form == "uri" and declared:
            pfx = r.choice(sorted(declared))
            return {"form": "uri", "s": declared[pfx] + local}
        if "qn" not in forms:
            if declared:
                pfx = r.choice(sorted(declared))
                return {"form": "str", "s": "%s:%s" % (pfx, local)}
            return {"form": "uri", "s": r.choice(self.p["ns_uris"]) + local}
        if r.random() < self.p["p_clash"] or not declared:
            pfx = r.choice(self.p["prefixes"])
            uri = r.choice(self.p["ns_uris"])
        else:
            pfx = r.choice(sorted(declared))
            uri = declared[pfx]
        if default and r.random() < self.p["empty_prefix_qn"]:
            if isinstance(t, str) and self.scopes[t]["default"] is None:
                self.scopes[t]["default"] = default  # the scope adopts it
            return {"form": "qn", "prefix": "", "ns": default, "local": local}
        if isinstance(t, str):
            self._note_ns(t, pfx, uri)
        return {"form": "qn", "prefix": pfx, "ns": uri, "local": local}

    def _note_ns(self, t, pfx, uri):
        d = self.scopes[t]["declared"]
        v = self.view(t)
        if pfx not in v and uri not in v.values() and pfx not in ("prov", "xsd", "xsi"):
            d[pfx] = uri

    # ---- operations --------------------------------------------------------------------------
    def op_ns(self, t):
        r = self.r
        pfx, u = r.choice(self.p["prefixes"]), r.choice(self.p["ns_uris"])
        self._note_ns(t, pfx, u)
        return ["ns", t, pfx, u]

    def op_dns(self, t):
        sc = self.scopes[t]
        if sc["default"] or sc.get("bare_used"):
            return None  # usage discipline: a scope's default is bound once
        u = self.r.choice(self.p["ns_uris"])
        sc["default"] = u
        return ["dns", t, u]

    def op_bundle(self):
        i = len(self.targets) - 1
        t = "B%d" % i
        self.scopes[t] = {"declared": {}, "default": None}
        if self.r.random() < self.p.get("p_standalone_bundle", 0.25):
            # a stand-alone ProvBundle, filled while detached and attached later with add_bundle()
            how = self.r.choice(["ctor_id", "ctor_id", "attach_id"])
            ident = self.rand_name(t, forms=("qn",), locals_=["b%d" % i, "sb%d" % i, "b"])
            op = ["sbundle", t, ident if how == "ctor_id" else None]
            if self.r.random() < 0.4:
                nss = []
                for _ in range(self.r.randint(1, 2)):
                    pfx, u = self.r.choice(self.p["prefixes"]), self.r.choice(self.p["ns_uris"])
                    if pfx not in [x[0] for x in nss]:
                        nss.append([pfx, u])
                        self._note_ns(t, pfx, u)
                op += [nss, self.r.choice(["dict", "list"])]
            self.pending_attach.append((t, None if how == "ctor_id" else self.rand_name("D", locals_=["b%d" % i, "b"])))
        else:
            op = ["bundle", t, self.rand_name("D", locals_=["b%d" % i, "bundle/%d" % i, "b", "run-1.0", "run-1_0", "run-1-0"])]
        self.targets.append(t)
        return op

    def op_attach(self, force=False):
        if not self.pending_attach or not (force or self.r.random() < 0.25):
            return None
        t, ident = self.pending_attach.pop(0)
        return ["attach", t, ident]

    def rand_extras(self, t, n=None, kind=None):
        r = self.r
        extras = []
        for _ in range(n if n is not None else r.randint(1, 4)):
            if extras and r.random() < self.p["p_multi_value"]:
                an = r.choice(extras)[0]  # second value for the same attribute
            elif r.random() < 0.5:
                an = {"form": "str", "s": "prov:" + r.choice(PROV_EXTRA)}
                if self.p.get("prov_unknown_attrs", True) and r.random() < 0.06:
                    an = {"form": "str", "s": "prov:" + r.choice(PROV_UNKNOWN)}
                elif self.p.get("prov_alias_attrs", 0) and r.random() < self.p["prov_alias_attrs"]:
                    # the same attribute named through a Namespace object of the caller's own for the PROV namespace (another prefix,
                    # the same URI): pvx:label is prov:label
                    an = {"form": "qn", "prefix": "pvx", "ns": "http://www.w3.org/ns/prov#", "local": an["s"][5:]}
            else:
                an = self.rand_name(t, forms=tuple(f for f in self.p["name_forms"] if f != "uri") or ("qn",),
                                    locals_=self.p["attr_locals"])
            if an.get("s") == "prov:type" and r.random() < self.p["p_prov_class_type"]:
                matching = SUBTYPES_OF.get(kind)
                local = r.choice(matching) if matching and r.random() < 0.7 else r.choice(PROV_CLASS_TYPES)
                val = {"k": "qn", "name": {"form": "prov", "local": local}}
                if r.random() < 0.2:
                    val = {"k": "uri", "v": "http://www.w3.org/ns/prov#" + local}
            elif self.p["label_plain"] and an.get("s") == "prov:label":
                val = self.rand_value(t, kinds=("str", "lang"))
            elif r.random() < 0.03 and an.get("s") != "prov:label" and [l for (l, k2, tt) in self.rec_labels if tt == t and k2 in ELEMENTS]:
                # a record object given as the value of an ordinary attribute: it stands for its identifier
                val = {"k": "recval", "label": r.choice([l for (l, k2, tt) in self.rec_labels if tt == t and k2 in ELEMENTS])}
            else:
                val = self.rand_value(t)
            extras.append([an, val])
        return extras

    def pick_endpoint(self, t, want_kind=None):
        """A formal reference argument: sometimes the record object itself, else a name."""
        r = self.r
        cands = [l for (l, k, tt) in self.rec_labels if tt == t and (want_kind is None or k == want_kind) and k in ELEMENTS]
        if len(self.targets) > 1 and r.random() < 0.3:
            # the record object of an element of *another* container (document level from a bundle, a sibling bundle, a stand-alone
            # bundle): its identifier was resolved in another namespace scope
            cands = [l for (l, k, tt) in self.rec_labels if (want_kind is None or k == want_kind) and k in ELEMENTS]
        if cands and r.random() < self.p["p_record_ref"]:
            return {"form": "rec", "label": r.choice(cands)}
        if self.used_ids and r.random() < 0.5:
            return r.choice(self.used_ids)
        return self.rand_name(t)

    def op_rec(self, t=None, kind=None):
        r = self.r
        t = t or r.choice(self.targets)
        kind = kind or r.choice(self.p["kinds"])
        factory, formals = KINDS[kind]
        is_elem = kind in ELEMENTS
        bare = self.p["bare_relations"] and kind in NO_ID_FACTORY
        if is_elem or (r.random() > self.p["p_anon"] and not bare):
            if self.used_ids and r.random() < self.p["p_repeat_id"]:
                rid = r.choice(self.used_ids)
            else:
                rid = self.rand_name(t)
                self.used_ids.append(rid)
        else:
            rid = None
        args = {}
        for i, f in enumerate(formals):
            if f in TIME_ATTRS:
                if r.random() < 0.5:
                    v = self.rand_dt()
                    v["as"] = r.choice(["dt", "iso"])
                    args[f] = v
            elif i < 2 and not is_elem:
                mandatory = self.p["mandatory_args"] and (i == 0 or kind in (
                    "Communication", "Derivation", "Attribution", "Delegation", "Influence", "Specialization",
                    "Alternate", "Mention", "Membership"))
                if mandatory or r.random() > self.p["p_missing_endpoint"]:
                    args[f] = self.pick_endpoint(t)
            else:
                if r.random() < 0.5 or (self.p["mandatory_args"] and kind == "Mention"):
                    args[f] = self.pick_endpoint(t)
        extras = []
        if r.random() < self.p["p_extra"] and not bare:
            extras = self.rand_extras(t, kind=kind)
        if is_elem and r.random() < self.p.get("p_label", 0.0):
            extras.append([{"form": "str", "s": "prov:label"}, self.rand_value(t, kinds=("str", "str", "lang"))])
        via = r.choice(["new_record", "factory"])
        if kind == "Membership" and "entity" in args and r.random() < self.p.get("multi_member", 0.0):
            # one hadMember record listing several members (what PROV-JSON arrays and several prov:entity children in PROV-XML
            # denote); created in a single call, the only way the API offers
            via = "new_record"
            for _ in range(r.randint(1, 2)):
                extras.append([{"form": "str", "s": "prov:entity"}, {"k": "qn", "name": self.rand_name(t, forms=("qn",))}])
        label = "R%d" % self.nrec
        self.nrec += 1
        op = ["rec", t, kind, rid, args, extras, via, label]
        # subtype factories
        if via == "factory" and self.p["subtype_factories"] and kind in ("Derivation", "Entity") and r.random() < 0.25:
            names = [n for n, (bk, _) in SUBTYPE_FACTORIES.items() if bk == kind]
            op[6] = "factory:" + r.choice(names)
        # element convenience method: needs an element record of the right class in this target
        if kind in CONVENIENCE and rid is None and r.random() < self.p["p_conv"] * 4:
            cls, _m = CONVENIENCE[kind]
            cands = [l for (l, k, tt) in self.rec_labels if tt == t and k == cls]
            if cands and formals[0] in args:
                op[6] = "conv"
                op.append(r.choice(cands))
        self.rec_labels.append((label, kind, t))
        return op

    def op_attrs(self):
        r = self.r
        if not self.rec_labels:
            return None
        label, kind, t = r.choice(self.rec_labels)
        which = r.random()
        if kind == "Activity" and which < 0.25:
            s = self.rand_dt() if r.random() < 0.7 else None
            e = self.rand_dt() if r.random() < 0.5 else None
            for x in (s, e):
                if x:
                    x["as"] = r.choice(["dt", "iso"])
            return ["settime", label, s, e]
        if which < 0.4:
            v = {"k": "qn", "name": {"form": "prov", "local": r.choice(PROV_CLASS_TYPES)}} if r.random() < 0.5 \
                else {"k": "qn", "name": self.rand_name(t, forms=("qn",))}
            return ["astype", label, v]
        return ["attrs", label, self.rand_extras(t, r.randint(1, 3)), r.choice(["dict", "list"])]

    def start(self):
        r = self.r
        ops = []
        self.scopes["D"] = {"declared": {}, "default": None}
        self.targets = ["D"]
        if r.random() < 0.2:
            # namespaces handed to the constructor, as a list of Namespace objects or as a {prefix: uri} dict
            nss = []
            for _ in range(r.randint(1, 3)):
                pfx, u = r.choice(self.p["prefixes"]), r.choice(self.p["ns_uris"])
                if pfx not in [x[0] for x in nss]:
                    nss.append([pfx, u])
                    self._note_ns("D", pfx, u)
            ops.append(["docinit", nss, r.choice(["dict", "list"])])
        if r.random() < self.p["p_default_doc"]:
            ops.append(self.op_dns("D"))
        for _ in range(r.randint(0, 3)):
            ops.append(self.op_ns("D"))
        return [o for o in ops if o]

    def step(self):
        """One more operation (may return None when the drawn operation is not applicable)."""
        r = self.r
        a = self.op_attach()
        if a:
            return [a]
        x = r.random()
        nb = len(self.targets) - 1
        if nb < self.p["max_bundles"] and x < 0.10:
            ops = [self.op_bundle()]
            t = self.targets[-1]
            if r.random() < self.p["p_default_bundle"]:
                ops.append(self.op_dns(t))
            for _ in range(r.randint(0, 2)):
                ops.append(self.op_ns(t))
            return [o for o in ops if o]
        if x < 0.10 + self.p["p_interleave_ns"]:
            t = r.choice(self.targets)
            o = self.op_ns(t) if r.random() < 0.8 else self.op_dns(t)
            return [o] if o else []
        if x < 0.10 + self.p["p_interleave_ns"] + self.p["p_attrs_op"]:
            o = self.op_attrs()
            return [o] if o else []
        op = self.op_rec()
        if r.random() < self.p.get("p_dup", 0.04) and op[6] != "conv":
            # the very same statement made twice (identical records are kept apart by every container: multiplicity is content)
            import copy
            twin = copy.deepcopy(op)
            twin[7] = "R%d" % self.nrec
            self.nrec += 1
            self.rec_labels.append((twin[7], twin[2], twin[1]))
            return [op, twin]
        return [op]

    def program(self, steps=None):
        r = self.r
        ops = self.start()
        # bundles are usually created early so that records can land in them
        for _ in range(r.randint(0, self.p["max_bundles"])):
            if len(self.targets) - 1 < self.p["max_bundles"]:
                ops.append(self.op_bundle())
                t = self.targets[-1]
                if r.random() < self.p["p_default_bundle"]:
                    o = self.op_dns(t)
                    if o:
                        ops.append(o)
                for _ in range(r.randint(0, 2)):
                    ops.append(self.op_ns(t))
        n = steps if steps is not None else r.randint(1, self.p["max_steps"])
        if steps is None and r.random() < self.p.get("p_storm", 0.03):
            # scale in one dimension: a clash storm on one prefix in one scope (the 10th, 11th ... renaming), each of the namespaces
            # then used by a record (names given as QualifiedName objects, so every one is re-homed)
            pfx = r.choice([x for x in self.p["prefixes"] if x not in ("prov", "xsd")])
            t = r.choice(self.targets)
            k = r.randint(11, 15)
            for i in range(k):
                ops.append(["ns", t, pfx, "http://scale.example/%s/%d/" % (pfx, i)])
            for i in range(k):
                if r.random() < 0.6:
                    name = {"form": "qn", "prefix": pfx, "ns": "http://scale.example/%s/%d/" % (pfx, i), "local": r.choice(["e1", "s%d" % i])}
                    label = "R%d" % self.nrec
                    self.nrec += 1
                    ops.append(["rec", t, "Entity", name, {}, [], "new_record", label])
                    self.rec_labels.append((label, "Entity", t))
                    self.used_ids.append(name)
        if steps is None and r.random() < self.p.get("p_big", 0.0):
            # scale in the other dimensions: more than nine bundles, hundreds of records
            saved = self.p["max_bundles"]
            if saved and r.random() < 0.5:
                self.p = dict(self.p, max_bundles=12)
                while len(self.targets) - 1 < 11:
                    ops.append(self.op_bundle())
                n = r.choice([120, 150])
            else:
                # one container with several hundred distinct records, each with a distinct value, and a few pairs of values that are
                # equal for Python but not the same (0.0 / -0.0, 1 / True): caches and interning give out beyond their sizes
                decl = self.view("D")
                pfx = sorted(decl)[0] if decl else None
                if pfx is None:
                    pfx, u = "ex", "http://ex.org/"
                    ops.append(["ns", "D", pfx, u])
                    self._note_ns("D", pfx, u)
                nsu = self.view("D")[pfx]
                many = r.choice([270, 330])
                for i in range(many):
                    v = {"k": "int", "v": 1000 + i}
                    # pairs that are far apart inside one pass over the records and close across the end of one pass and the start of
                    # the next (a bounded cache forgets between the two, a second export does not)
                    if i in (20, many - 20):
                        v = {"k": "float", "v": -0.0 if i == 20 else 0.0}
                    elif i in (24, many - 24):
                        v = {"k": "bool", "v": True} if i == 24 else {"k": "int", "v": 1}

                    label = "R%d" % self.nrec
                    self.nrec += 1
                    ops.append(["rec", "D", "Entity", {"form": "qn", "prefix": pfx, "ns": nsu, "local": "many%d" % i}, {},
                                [[{"form": "qn", "prefix": pfx, "ns": nsu, "local": "i"}, v]], "new_record", label])
                    self.rec_labels.append((label, "Entity", "D"))
        for _ in range(n):
            ops.extend(self.step())
        while self.pending_attach:
            ops.append(self.op_attach(force=True))
        return ops


def canonical(ops):
    import json
    return json.dumps(ops, sort_keys=True, ensure_ascii=True, separators=(",", ":"))


def case_hash(obj):
    import hashlib
    return hashlib.blake2b(canonical(obj).encode(), digest_size=8).hexdigest()
