"""Generator and post-build filter for the PROV-O-expressible input space of C07 (clause by clause).

Programs are emitted in the same operation vocabulary as pv.gen so that pv.interp runs them.
"""
import datetime

from pv import gen

NS = [("ex", "http://ex.org/"), ("o", "http://other.org/ns#"), ("u", "urn:x:")]
NOQUAL = {"Attribution", "Communication", "Delegation", "Influence", "Specialization", "Alternate", "Membership"}   # anonymous => bare
BARE_ONLY = {"Specialization", "Alternate", "Membership"}        # no qualified form in PROV-O; the library still writes identified ones
                                                                 # (new_record can give them an identifier and attributes): in the space
KINDS = [k for k in gen.KINDS if k != "Mention"]
PROV_CLASSES = {"Entity", "Activity", "Agent", "Generation", "Usage", "Communication", "Start", "End", "Invalidation", "Derivation",
                "Attribution", "Association", "Delegation", "Influence", "Bundle", "Alternate", "Specialization", "Mention", "Membership",
                "Revision", "Quotation", "PrimarySource", "SoftwareAgent", "Person", "Organization", "Plan", "Collection", "EmptyCollection"}
STRINGS = ["a", "hello world", 'q"uote', "new\nline", "é中", "", "<b>", "1", "x\\y", "tab\there"]


ELEMENT_SUBCLASSES = ["Person", "Organization", "SoftwareAgent", "Plan", "Collection", "EmptyCollection", "Bundle"]
BASE_CLASSES = {"Entity", "Activity", "Agent"}


def program(r, non_ascii=False, max_records=5, names_non_ascii=False):
    ops = []
    nss = NS[: r.randint(1, 3)]
    for p, u in nss:
        ops.append(["ns", "D", p, u])
    pf = [p for p, _u in nss]

    def name(pool):
        local = r.choice(pool)
        if names_non_ascii and r.random() < 0.4:
            local = r.choice(["é", "ü/x", "日本", "Zoë-"]) + local      # IRIs: non-ASCII characters in identifiers, ends, values
        return {"form": "str", "s": "%s:%s" % (r.choice(pf), local)}

    targets = ["D"]
    for i in range(r.randint(0, 2)):
        ops.append(["bundle", "B%d" % i, name(["b%d" % i, "bundle/%d" % i, "b~%d" % i])])
        targets.append("B%d" % i)
    mode = {}
    n = [0]

    def val():
        k = r.choice(["str", "int", "bool", "dt", "uri", "qn", "lang"])
        if k == "str":
            return {"k": "str", "v": r.choice(STRINGS + (["Đông ü", "日本", "sep\u2028arator", "para\u2029graph", "nel\x85x", "e\u0301 \u212b", "mid\ufeffdle", "\ufeffstart"]
                                               if non_ascii else []))}
        if k == "int":
            return {"k": "int", "v": r.choice([0, 1, -5, 2 ** 40, 42, 2 ** 63, -2 ** 63 - 1, 10 ** 30, 2 ** 31])}
        if k == "bool":
            return {"k": "bool", "v": r.random() < 0.5}
        if k == "dt":
            return val_dt(r, tz=True)
        if k == "uri":
            return {"k": "uri", "v": r.choice(["http://x.org/y", "urn:a:b"])}
        if k == "qn":
            return {"k": "qn", "name": {"form": "qn", "prefix": nss[0][0], "ns": nss[0][1], "local": r.choice(["t1", "t2"])}}
        return {"k": "lang", "v": r.choice(["hi", "été"]), "lang": r.choice(["en", "fr", "en-GB", "zh-Hant", "de-AT"])}

    def extras(relation):
        out = []
        for _ in range(r.randint(0, 3)):
            an = r.choice(["prov:type", "prov:label", "prov:location", "prov:role", "prov:value", None])
            an = {"form": "str", "s": an} if an else name(["tag", "tag2"] + (["été", "größe"] if non_ascii else []))
            v = val()
            if an["s"] == "prov:label":
                v = {"k": "str", "v": r.choice(STRINGS)} if r.random() < 0.6 else {"k": "lang", "v": "lbl", "lang": "en"}
            out.append([an, v])
        return out

    if non_ascii and r.random() < 0.04:
        # one value big enough for the whole text to cross every usual buffer size, in a script of three-byte characters
        n[0] += 1
        ops.append(["rec", "D", "Entity", name(["big%d" % n[0]]), {}, [[name(["tag"]), {"k": "str", "v": "日本語" * 9000}]], "new_record", "R%d" % n[0]])
    for t in targets:
        for _ in range(r.randint(1, max_records)):
            kind = r.choice(KINDS)
            n[0] += 1
            formals = gen.KINDS[kind][1]
            label = "R%d" % n[0]
            if kind in gen.ELEMENTS:
                args = {}
                if kind == "Activity":
                    for f in formals:
                        if r.random() < 0.5:
                            args[f] = val_dt(r, as_=r.choice(["dt", "iso"]))
                ex_ = extras(False)
                if r.random() < 0.3:
                    # a PROV subclass as prov:type, of this element's kind or of another one (an entity typed prov:Person stays an entity)
                    ex_.append([{"form": "str", "s": "prov:type"}, {"k": "qn", "name": {"form": "prov", "local": r.choice(ELEMENT_SUBCLASSES)}}])
                ops.append(["rec", t, kind, name(["el%d" % n[0], "el"]), args, ex_, "new_record", label])
                continue
            subj, obj = name(["s1", "s2", "s3", "s/4"]), name(["o1", "o2", "o.3", "9o"])
            key = (t, kind, subj["s"])
            if key not in mode:
                mode[key] = r.random() < (0.3 if kind in BARE_ONLY else 0.5)   # a subject carries identified OR anonymous relations of one kind, never both
            ident = mode[key]
            args = {formals[0]: subj, formals[1]: obj}
            ex = []
            plain = (not ident) and r.random() < 0.35      # a plain binary relation: the unqualified PROV-O triple
            if (ident or kind not in NOQUAL) and not plain:
                for f in formals[2:]:
                    if r.random() < 0.5:
                        args[f] = val_dt(r, as_="dt") if f in gen.TIME_ATTRS else name(["x1", "x2"])
                ex = extras(True)
            ops.append(["rec", t, kind, name(["r%d" % n[0]]) if ident else None, args, ex, "new_record", label])
            if not ident and kind not in NOQUAL and kind not in BARE_ONLY and r.random() < 0.12:
                # the same two records related twice by the same kind: once plainly, once with more to say (two statements, two relations)
                n[0] += 1
                args2 = {formals[0]: subj, formals[1]: obj}
                ex2 = []
                if plain:
                    for f in formals[2:]:
                        if r.random() < 0.5:
                            args2[f] = val_dt(r, as_="dt") if f in gen.TIME_ATTRS else name(["x1", "x2"])
                    ex2 = extras(True) or [[name(["tag"]), {"k": "str", "v": "the second statement"}]]
                ops.append(["rec", t, kind, None, args2, ex2, "new_record", "R%d" % n[0]])
    return ops


def val_dt(r, tz=False, as_="dt"):
    dt = datetime.datetime(r.randint(1900, 2100), r.randint(1, 12), r.randint(1, 28), r.randint(0, 23), r.randint(0, 59), r.randint(0, 59),
                           r.choice([0, 500000]))
    return {"k": "dt", "iso": dt.isoformat(), "tz": r.choice([None, 0, 330]) if tz else None, "as": as_}


def in_space(doc):
    """Every clause of the C07 quantifier, evaluated on the built document.  Returns None or the clause that fails."""
    import prov.model as pm
    from prov.identifier import Identifier, QualifiedName
    P = "http://www.w3.org/ns/prov#"
    declared = {ns.uri for ns in doc.namespaces if ns.prefix}
    declared |= {P, "http://www.w3.org/2001/XMLSchema#"}
    if doc.get_default_namespace() is not None:
        return "default namespace on the document"

    def ok_name(q):
        return isinstance(q, QualifiedName) and q.namespace.uri in declared and q.namespace.prefix

    kinds_by_id = {}
    for b in [doc] + list(doc.bundles):
        if b is not doc:
            if not b._records:
                return "empty bundle"
            if not ok_name(b.identifier):
                return "bundle name outside the document's prefixed namespaces"
            if b.get_default_namespace() is not None:
                return "default namespace on a bundle"
        anon_kinds, ident_kinds = set(), set()
        for rec in b._records:
            kind = rec.get_type().localpart
            if kind == "Mention":
                return "mention"
            if rec._identifier is not None:
                if not ok_name(rec._identifier):
                    return "name outside the document's prefixed namespaces"
                kinds_by_id.setdefault(rec._identifier.uri, set()).add(kind)
            formals = gen.KINDS[kind][1]
            fvals = {a.localpart: list(vs) for a, vs in rec._attributes.items() if a.uri.startswith(P) and a.localpart in formals and vs}
            extras_ = [(a, v) for a, vs in rec._attributes.items() for v in vs if not (a.uri.startswith(P) and a.localpart in formals)]
            for a, vs in rec._attributes.items():
                if not ok_name(a) and not a.uri.startswith(P):
                    return "attribute name outside the document's prefixed namespaces"
                for v in vs:
                    if isinstance(v, QualifiedName):
                        if not ok_name(v) and not v.uri.startswith(P):
                            return "name outside the document's prefixed namespaces"
                    elif isinstance(v, pm.Literal):
                        if not v.langtag:
                            return "foreign-typed literal"
                    elif isinstance(v, float):
                        return "float value"
                    elif not isinstance(v, (str, bool, int, datetime.datetime, Identifier)):
                        return "unsupported value kind"
            if kind in gen.ELEMENTS:
                for a, v in extras_:
                    if a.uri == P + "type" and isinstance(v, QualifiedName) and v.uri.startswith(P) and v.localpart in BASE_CLASSES:
                        return "prov:type naming a PROV base class on an element"
            if kind not in gen.ELEMENTS:
                if formals[0] not in fvals or formals[1] not in fvals:
                    return "relation lacks one of its first two arguments"
                for a, v in extras_:
                    if a.uri == P + "type" and isinstance(v, QualifiedName) and v.uri.startswith(P) and v.localpart in PROV_CLASSES:
                        return "prov:type naming a PROV class on a relation"
                subj = fvals[formals[0]][0].uri
                if rec._identifier is None:
                    if kind in NOQUAL and (extras_ or set(fvals) - set(formals[:2])):
                        return "anonymous %s with attributes or optional arguments" % kind
                    if (kind, subj) in ident_kinds:
                        return "subject with identified and anonymous relation of one kind"
                    anon_kinds.add((kind, subj))
                else:
                    if (kind, subj) in anon_kinds:
                        return "subject with identified and anonymous relation of one kind"
                    ident_kinds.add((kind, subj))
    if any(len(k) > 1 for k in kinds_by_id.values()):
        return "identifier naming records of several kinds"
    return None
