"""C08 -- unified() merges exactly the records sharing an identifier (and kind), losing nothing.

Oracle: the reference model pv.models.unify() over the ordered strict snapshot of the source: per container, records
are grouped by (kind, identifier URI); a group becomes one record holding the union of the attribute values at the
position of its first member; anonymous records are kept; bundles are kept under the same URI; ProvException iff a
same-kind group disagrees on a single-valued (formal) attribute.  Also: idempotence, source untouched (content,
order and namespaces), ProvBundle.unified() directly, and the shipped unification corpus.
"""
import glob
import os

from pv import env, gen, models, monitors, strict, interp
from pv.checks import common
from pv.runner import case_rng

import prov.model as pm

ID = "C08"
LEVEL = "exploration"
ANCHORS = ["prov.model:ProvBundle._unified_records", "prov.model:ProvBundle.unified", "prov.model:ProvDocument.unified",
           "prov.model:ProvRecord.copy", "prov.model:ProvRecord.add_attributes", "prov.model:ProvDocument.add_bundle"]


def plan(tier, seed):
    return {
        "cases": 8000 if tier == "quick" else 160000,
        "hashseeds": [0] if tier == "quick" else [0, 1, 2, 3],
        "timeout_s": 300 if tier == "quick" else 3000,
        "rule": "case = a c08-profile program (identifiers drawn from a small pool so that 1..4 records share one: same kind with "
                "overlapping / disjoint / conflicting attributes, different kinds, inside and outside bundles, same URI through different "
                "prefixes), or one of the shipped unification files; unified() of the document and of every bundle is compared with the "
                "model. distinct = canonical program hash; non-trivial = some identifier occurs on >= 2 records of a container",
        "assumptions": [
            "a membership group that disagrees on a formal value may be refused (ProvException) or answered (multi-member records are "
            "outside C05's claim); when it is answered the merged record must hold the union of the values (nothing lost)",
            "two values are 'the same' for the conflict clause when Python compares them equal (same URI; same instant for aware datetimes)",
            "attribute values are sets in the library: the model merges by set union",
        ],
    }


def setup_worker(ctx):
    common.setup(ctx, ANCHORS)
    ctx.corpus = sorted(glob.glob(os.path.join(env.PROV_SRC, "prov", "tests", "unification", "*.json")))


def finish_worker(ctx):
    common.finish(ctx)


def make_case(ctx, idx):
    r = case_rng(ctx.seed, ID, idx)
    if ctx.corpus and r.random() < 0.01:
        return {"mode": "corpus", "file": os.path.relpath(r.choice(ctx.corpus), env.PROV_SRC)}
    prof = gen.profile("c08", locals=["e1", "e2", "a1", "x.y"], prefixes=["ex", "ex2", "other", "ex_1"],
                       ns_uris=["http://ex.org/", "http://ex.org/sub/", "urn:x:"], attr_locals=["tag", "v"],
                       uris=("http://ex.org/e1", "http://ex.org/e2", "urn:x:a1", "http://ex.org/sub/x.y", "http://x.org/y"))
    if r.random() < 0.3:
        prof = dict(prof, kinds=("Activity", "Activity", "Activity", "Entity", "Usage"), p_attrs_op=0.4, locals=["a1", "a2"], max_steps=14)
    ops = gen.Gen(r, prof).program()
    if r.random() < 0.4:
        ops = near_twin(ops, r)
    return {"mode": "program", "ops": ops}


def near_twin(ops, r):
    """Add a sibling of one identified record (same kind, identifier, container, formal arguments) whose extra values are
    *near twins* of the original's: the same URI as xsd:anyURI instead of a qualified name, the same text as another kind of
    literal, the same string under another language tag.  Unification must keep both values apart (union, nothing lost)."""
    import copy
    cands = [op for op in ops if op[0] == "rec" and op[3] is not None and op[5]]
    if not cands:
        return ops
    src = r.choice(cands)
    twin = copy.deepcopy(src[:8])
    twin[6] = "new_record"
    twin[7] = "%s_twin" % src[7]
    extras = []
    for an, v in twin[5]:
        k = v["k"]
        if k == "qn":
            n = v["name"]
            uri = ("http://www.w3.org/ns/prov#" + n["local"]) if n["form"] == "prov" else (n["ns"] + n["local"] if n["form"] == "qn" else None)
            if uri:
                extras.append([an, {"k": "uri", "v": uri}])
        elif k == "uri":
            extras.append([an, {"k": "str", "v": v["v"]}])
        elif k == "str":
            extras.append([an, {"k": "lang", "v": v["v"], "lang": "en"}])
            extras.append([an, {"k": "lit", "v": v["v"], "dt": {"form": "xsd", "local": "token"}}])
        elif k == "lang":
            extras.append([an, {"k": "lang", "v": v["v"], "lang": "en-GB" if v["lang"] != "en-GB" else "fr"}])
            swapped = v["lang"].upper() if v["lang"] != v["lang"].upper() else v["lang"].lower()
            extras.append([an, {"k": "lang", "v": v["v"], "lang": swapped}])      # the same tag in another letter case is another value
        elif k == "int":
            extras.append([an, {"k": "str", "v": str(v["v"])}])
            extras.append([an, {"k": "lit", "v": str(v["v"]), "dt": {"form": "xsd", "local": "integer"}}])
        elif k == "dt":
            extras.append([an, {"k": "str", "v": v["iso"]}])
    if not extras:
        return ops
    twin[5] = extras
    pos = ops.index(src) + 1 + r.randint(0, max(0, len(ops) - ops.index(src) - 1))
    return ops[:pos] + [twin] + ops[pos:]


def has_repeats(ordered_doc):
    for _b, keys in ordered_doc:
        seen = set()
        for t, i, _a in keys:
            if i is not None:
                if i in seen:
                    return True
                seen.add(i)
    return False


def compare_container(name, got_keys, want_keys, problems):
    got = [models.setlike(k) for k in got_keys]
    want = [models.setlike(k) for k in want_keys]
    if got != want:
        if sorted(got, key=repr) == sorted(want, key=repr):
            problems.append({"container": name, "problem": "record order differs from first-occurrence order",
                             "got": strict.jsonable([(k[0].split("#")[-1], k[1]) for k in got][:12]),
                             "want": strict.jsonable([(k[0].split("#")[-1], k[1]) for k in want][:12])})
        else:
            import collections
            lost = list((collections.Counter(want) - collections.Counter(got)).elements())[:3]
            extra = list((collections.Counter(got) - collections.Counter(want)).elements())[:3]
            problems.append({"container": name, "problem": "unified content differs from the model",
                             "missing": strict.jsonable(lost), "unexpected": strict.jsonable(extra)})


def judge_container(ctx, c, name, problems):
    """c: ProvDocument or ProvBundle."""
    before = (strict.ordered(c), strict.nsview(c)) if c.is_document() else ([(None, strict.ordered_bundle(c))], [strict.nsview_scope(c)])
    want, conflict, mconflict = models.unify(before[0])
    try:
        u = c.unified()
        outcome = "ok"
    except pm.ProvException as e:
        outcome = "refused"
        u = None
    except Exception as e:
        problems.append({"container": name, "problem": "unified() raised %s: %s" % (type(e).__name__, str(e)[:200])})
        return
    after = (strict.ordered(c), strict.nsview(c)) if c.is_document() else ([(None, strict.ordered_bundle(c))], [strict.nsview_scope(c)])
    if after != before:
        problems.append({"container": name, "problem": "unified() changed its source", "changes": monitors.pure_compare(before, after) if c.is_document() else "bundle content/namespaces"})
    ctx.count("unified.%s.%s" % ("document" if c.is_document() else "bundle", outcome))
    if mconflict:
        ctx.count("not_judged_on_raise.membership_group_conflict")
    if outcome == "refused":
        if not conflict and not mconflict:
            problems.append({"container": name, "problem": "ProvException although no same-kind group disagrees on a formal attribute"})
        return
    if conflict:
        problems.append({"container": name, "problem": "no ProvException although a same-kind group disagrees on a formal attribute"})
        return
    if mconflict:
        # a membership group that disagrees on a formal value: raising is accepted (above); when unified() answers instead, the
        # statement's other branch applies -- the merged record holds the union, nothing is lost
        ctx.count("membership_conflict_answered: judged on 'nothing lost'")
    got = strict.ordered(u) if u.is_document() else [(None, strict.ordered_bundle(u))]
    if [b for b, _ in got] != [b for b, _ in want]:
        problems.append({"container": name, "problem": "bundle identifiers differ", "got": [b for b, _ in got], "want": [b for b, _ in want]})
        return
    for (b, gk), (_b, wk) in zip(got, want):
        compare_container("%s/%s" % (name, b), gk, wk, problems)
    if not c.is_document():
        gi = u.identifier.uri if u.identifier is not None else None
        wi = c.identifier.uri if c.identifier is not None else None
        if gi != wi:
            problems.append({"container": name, "problem": "bundle identifier changed", "got": gi, "want": wi})
    # idempotence
    try:
        uu = u.unified()
        g2 = strict.ordered(uu) if uu.is_document() else [(None, strict.ordered_bundle(uu))]
        if [(b, [models.setlike(k) for k in ks]) for b, ks in g2] != [(b, [models.setlike(k) for k in ks]) for b, ks in got]:
            problems.append({"container": name, "problem": "unified() is not idempotent"})
        ctx.count("idempotence_checked")
    except Exception as e:
        problems.append({"container": name, "problem": "unified() of the result raised %s: %s" % (type(e).__name__, str(e)[:150])})
    # the result is a new object
    if u is c:
        problems.append({"container": name, "problem": "unified() returned its source"})


def judge(ctx, idx, case):
    ctx.hub.context = {"check": ID, "idx": idx}
    if case["mode"] == "corpus":
        doc = pm.ProvDocument.deserialize(os.path.join(env.PROV_SRC, case["file"]))
        ctx.count("corpus_files")
    else:
        doc = common.build(case["ops"]).doc
    if idx % 7 == 3:
        # a shallow copy of the document (copy.copy) gets one more record under an identifier the document already uses; whatever the
        # two then share, unified() of the document is still the unification of the records the document itself lists
        import copy
        try:
            c2 = copy.copy(doc)
            el = [x for x in doc.get_records() if x.identifier is not None]
            if el:
                x = el[idx % len(el)]
                c2.new_record(x.get_type(), x.identifier, None, [(pm.Namespace("cp", "http://copy.example/")["added"], idx)])
                ctx.count("shallow_copy_got_a_record_under_an_existing_identifier")
        except pm.ProvException:
            pass
    od = strict.ordered(doc)
    problems = []
    judge_container(ctx, doc, "document", problems)
    for b in list(doc.bundles):
        judge_container(ctx, b, "bundle %s" % b.identifier.uri, problems)
    common.drain_monitors(ctx, idx, case)
    if problems:
        ctx.violation(idx, "unified(): %s" % str({k: v for k, v in problems[0].items() if k in ("container", "problem")})[:300], case, {"problems": problems[:4]})
    if has_repeats(od):
        ctx.hashes.add(gen.case_hash(case))
        ctx.count("documents_with_repeated_identifiers")
        kinds = set()
        for _b, keys in od:
            byid = {}
            for t, i, _a in keys:
                if i is not None:
                    byid.setdefault(i, set()).add(t)
            if any(len(ts) > 1 for ts in byid.values()):
                kinds.add("x")
        if kinds:
            ctx.count("documents_with_one_identifier_on_several_kinds")
        ctx.sample(case, limit=2)


def run_case(ctx, idx):
    judge(ctx, idx, make_case(ctx, idx))


def replay(ctx, rec):
    judge(ctx, rec["idx"], rec["payload"])


def floors(counters, tier, extra):
    out = []
    need = 200 if tier == "quick" else 2000
    for k in ("unified.document.ok", "unified.document.refused", "unified.bundle.ok", "unified.bundle.refused", "idempotence_checked",
              "documents_with_repeated_identifiers", "documents_with_one_identifier_on_several_kinds"):
        if counters.get(k, 0) < need // 2:
            out.append("%s only %d" % (k, counters.get(k, 0)))
    if counters.get("corpus_files", 0) < 5:
        out.append("unification corpus reached only %d times" % counters.get("corpus_files", 0))
    out.extend(common.cov_floor(extra))
    return out


TECHNIQUE = "runtime monitoring: executions of unified() compared with an executable reference model over snapshots (+ PURE/IDX monitors)"
LEVEL_TEXT = ("Exploration by runtime observation against a reference model: for generated documents biased to repeated identifiers, the result of "
              "unified() on the document and on every bundle is compared record by record (kind, identifier URI, attribute-value set, order, "
              "bundle identifiers) with a 40-line model computed from the strict snapshot of the source; raise/no-raise is compared with the "
              "model's conflict predicate; idempotence and non-interference with the source (content, order, namespaces) are observed on every "
              "execution; the shipped unification files are included.")
LEVEL_NOTE = "Trusted: the reference model in pv/models.py and the strict snapshot. Bounded documents; membership carve-out as stated."
DESIGN_REF = "DESIGN.md section 4.3 and section 6, C08"
