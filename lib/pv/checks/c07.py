"""C07 -- PROV-O (TriG) round trip preserves the unified content of expressible documents.

Oracle: strict(read(write(d)).unified()) == strict(d.unified()) compared as sets per bundle; writing/reading must not raise.
A second, per-relation count oracle reports whether every original relation came back exactly once (never zero, never two).
The input space is implemented clause by clause both as generator constraints and as a post-build filter (pv.rdfspace).
"""
import collections

from pv import gen, rdfspace, strict, interp, findings, models
from pv.checks import common
from pv.runner import case_rng

import prov.model as pm

ID = "C07"
LEVEL = "exploration"
ANCHORS = ["prov.serializers.provrdf:ProvRDFSerializer.encode_container", "prov.serializers.provrdf:ProvRDFSerializer.decode_container",
           "prov.serializers.provrdf:ProvRDFSerializer.encode_rdf_representation", "prov.serializers.provrdf:ProvRDFSerializer.decode_rdf_representation",
           "prov.serializers.provrdf:ProvRDFSerializer.encode_document", "prov.serializers.provrdf:ProvRDFSerializer.decode_document",
           "prov.serializers.provrdf:literal_rdf_representation"]
P = "http://www.w3.org/ns/prov#"


def plan(tier, seed):
    return {
        "cases": 3000 if tier == "quick" else 60000,
        "hashseeds": [0] if tier == "quick" else [0, 1, 2, 3],
        "timeout_s": 400 if tier == "quick" else 3400,
        "rule": "case = a program from the PROV-O-expressible space of the quantifier (pv.rdfspace: generator constraints + post-build filter "
                "re-checking every clause; rejected documents are counted per clause); written as default TriG and read back. distinct = "
                "canonical program hash; non-trivial = >= 1 relation and the round trip was compared",
        "assumptions": [
            "reading of 'PROV-O-expressible': identifiers name records of one kind document-wide; an element's prov:type does not name one "
            "of the three base classes prov:Entity / prov:Activity / prov:Agent (in RDF that triple *is* the node's kind: it cannot be told "
            "from it, and naming another base class gives the node two kinds); subclasses (prov:Person, prov:Plan, prov:Collection ...) are "
            "generated on elements of every kind, matching or not",
            "comparison is set based against unified() because RDF is a set of triples",
            "C01's carve-out (two values of one attribute that compare equal but differ in kind: 0 / False, 1 / True / 1.0) is applied to "
            "what RDF and unified() merge: all records of one identifier in one container; such documents are counted and not judged",
            "rdflib 7.x is the RDF library on both sides (the repository pins <7; 7.6 is what is installed offline)",
        ],
    }


def setup_worker(ctx):
    common.setup(ctx, ANCHORS)


def finish_worker(ctx):
    common.finish(ctx)


def make_case(ctx, idx):
    r = case_rng(ctx.seed, ID, idx)
    return {"ops": rdfspace.program(r, non_ascii=r.random() < 0.3, names_non_ascii=r.random() < 0.25)}


def merged_kind_collision(doc):
    """The carve-out of C01 ('one attribute holding two values that compare equal but differ in kind': 0 / False, 1 / True / 1.0),
    applied to what RDF and unified() merge: all records of one identifier in one container form one subject."""
    for b in [doc] + list(doc._bundles.values()):
        groups = {}
        for rec in b._records:
            key = rec._identifier.uri if rec._identifier is not None else id(rec)
            g = groups.setdefault(key, {})
            for a, vs in rec._attributes.items():
                g.setdefault(a.uri, set()).update(strict.vkey(v) for v in vs)
        for g in groups.values():
            for keys in g.values():
                if len(keys) != len({strict.collapse_vkey(k) for k in keys}):
                    return True
    return False


def setsnap(doc):
    return {b: set(models.setlike(k) for k in c) for b, c in strict.strict(doc).items()}


def roundtrip_problems(doc):
    try:
        want = setsnap(doc.unified())
    except pm.ProvException:
        return None, "not_unifiable"
    try:
        text = doc.serialize(format="rdf")
    except Exception as e:
        return ["serialize(format='rdf') raised %s: %s" % (type(e).__name__, str(e)[:200])], None
    try:
        # the text reaches the reader as content, as a binary stream, as an object that only has read(), or as a stream that holds a
        # line of other data first and is positioned behind it (a document inside a larger stream)
        import io
        import zlib
        how = zlib.crc32(text.encode("utf-8")) % 4
        if how == 0:
            d2 = pm.ProvDocument.deserialize(content=text, format="rdf")
        elif how == 1:
            d2 = pm.ProvDocument.deserialize(io.BytesIO(text.encode("utf-8")), format="rdf")
        elif how == 2:
            from pv.checks.c16 import ReadOnly
            d2 = pm.ProvDocument.deserialize(ReadOnly(text.encode("utf-8")), format="rdf")
        else:
            head = b"<urn:not:ours> <urn:not:ours> <urn:not:ours> .\n"
            s = io.BytesIO(head + text.encode("utf-8"))
            s.seek(len(head))
            d2 = pm.ProvDocument.deserialize(s, format="rdf")
    except Exception as e:
        return ["deserialize raised %s: %s" % (type(e).__name__, str(e)[:200]), {"text": text[:3000]}], text
    try:
        got = setsnap(d2.unified())
    except Exception as e:
        return ["unified() of the re-read document raised %s: %s" % (type(e).__name__, str(e)[:200]), {"text": text[:3000]}], text
    if got != want:
        probs = []
        for b in sorted(set(want) | set(got), key=repr):
            if b not in got:
                probs.append(["missing-bundle", b])
            elif b not in want:
                probs.append(["extra-bundle", b])
            else:
                for k in list(want[b] - got[b])[:3]:
                    probs.append(["lost", b, strict.jsonable(k)])
                for k in list(got[b] - want[b])[:3]:
                    probs.append(["gained", b, strict.jsonable(k)])
        # per-relation count oracle
        counts = []
        for b in want:
            w = collections.Counter((k[0], k[1]) for k in want[b] if k[0][len(P):] not in gen.ELEMENTS)
            g = collections.Counter((k[0], k[1]) for k in got.get(b, set()) if k[0][len(P):] not in gen.ELEMENTS)
            for key in set(w) | set(g):
                if w[key] != g[key]:
                    counts.append([b, key[0][len(P):], key[1], "original %d, after round trip %d" % (w[key], g[key])])
        return [{"diff": probs[:8], "relation_counts": counts[:6]}, {"text": text[:3000]}], text
    return [], text


def judge(ctx, idx, case):
    ctx.hub.context = {"check": ID, "idx": idx}
    st = common.build(case["ops"])
    doc = st.doc
    common.tally_program(ctx, case["ops"], st)
    why = rdfspace.in_space(doc)
    if why:
        ctx.count("filtered: %s" % why[:60])
        ctx.count("filtered_total")
        common.drain_monitors(ctx, idx, case)
        return
    if merged_kind_collision(doc):
        # Python's set semantics, not the format: which of two equal values of different kind survives a merge is not defined
        ctx.count("skipped.equal_values_of_different_kind_on_one_subject")
        common.drain_monitors(ctx, idx, case)
        return
    problems, text = roundtrip_problems(doc)
    if problems is None:
        ctx.count("skipped.not_unifiable")
        common.drain_monitors(ctx, idx, case)
        return
    ctx.count("roundtrips")
    if not problems and idx % 6 == 1:
        # the document goes on living: after the first export an element (inside a bundle, if there is one) gets one more value, and
        # the export is made again -- it has to be the export of the document as it is now
        conts = [b for b in doc.bundles if b._records] or [doc]
        els = [x for x in conts[0]._records if x.is_element()]
        if els:
            ns = next(iter(n for n in doc.namespaces if n.prefix), None)
            if ns is not None:
                els[0].add_attributes([(ns["tag"], "added after the first export (%d)" % idx)])
                if rdfspace.in_space(doc) is None:
                    problems2, text2 = roundtrip_problems(doc)
                    ctx.count("second_export_after_a_change")
                    if problems2:
                        problems, text = [dict(problems2[0], after="a value added after the first export") if isinstance(problems2[0], dict) else problems2[0]] + problems2[1:], text2
    for b in [doc] + list(doc.bundles):
        for rec in b._records:
            kind = rec.get_type().localpart
            if kind in gen.ELEMENTS:
                continue
            formals = gen.KINDS[kind][1]
            has_opt = any(a.localpart in formals[2:] and vs for a, vs in rec._attributes.items() if a.uri.startswith(P))
            has_extra = any(vs for a, vs in rec._attributes.items() if not (a.uri.startswith(P) and a.localpart in formals))
            flavour = "identified" if rec._identifier is not None else ("anonymous+qualified" if (has_opt or has_extra) else "unqualified")
            ctx.count("rel.%s.%s" % (kind, flavour))
    if problems:
        fid = findings.attribute(ID, case, lambda c: (roundtrip_problems(common.build(c["ops"]).doc)[0] or []))
        if fid:
            ctx.known_finding(fid, str(problems[0])[:200], {"idx": idx})
        else:
            ctx.violation(idx, "PROV-O round trip: %s" % str(problems[0])[:300], case, {"problems": problems[:3]})
    if any(op[0] == "rec" and op[2] not in gen.ELEMENTS for op in case["ops"]):
        ctx.hashes.add(gen.case_hash(case["ops"]))
        ctx.sample({"program": case["ops"], "trig": (text or "")[:1500]}, limit=2)
    common.drain_monitors(ctx, idx, case)


def run_case(ctx, idx):
    if idx % 3 == 0:
        with common.warnings_are_errors(ctx):
            judge(ctx, idx, make_case(ctx, idx))
        return
    judge(ctx, idx, make_case(ctx, idx))


def replay(ctx, rec):
    judge(ctx, rec["idx"], rec["payload"])


def floors(counters, tier, extra):
    out = []
    need = 30 if tier == "quick" else 500
    if counters.get("roundtrips", 0) < (1500 if tier == "quick" else 30000):
        out.append("only %d round trips" % counters.get("roundtrips", 0))
    for kind in rdfspace.KINDS:
        if kind in gen.ELEMENTS:
            continue
        flavours = ["unqualified"] if kind in rdfspace.BARE_ONLY else (["identified", "unqualified"] + ([] if kind in rdfspace.NOQUAL else ["anonymous+qualified"]))
        for f in flavours:
            if counters.get("rel.%s.%s" % (kind, f), 0) < (need if f != "unqualified" else need // 3):
                out.append("relation %s/%s seen only %d times" % (kind, f, counters.get("rel.%s.%s" % (kind, f), 0)))
    out.extend(common.cov_floor(extra))
    return out


TECHNIQUE = "runtime monitoring: generated documents of the PROV-O-expressible space written as TriG and read back, set-level strict snapshot oracle against unified()"
LEVEL_TEXT = ("Exploration by runtime observation: programs drawn from the PROV-O-expressible space (every clause of the quantifier is a generator "
              "constraint and is re-checked on the built document) are serialised to default TriG and deserialised; the strict snapshot of the "
              "unified result is compared, as sets per bundle, with the strict snapshot of the unified original; a per-relation count oracle "
              "reports relations that came back zero or two times. The evidence tallies kind x {identified, anonymous+qualified, unqualified}."
              " Identified specialization / alternate / membership, IRIs in names, PROV subclasses as element types, values of int / datetime subclasses, a second export after a change, several source kinds and (a third of the cases) warnings as errors are part of the workload.")
LEVEL_NOTE = ("Trusted: rdflib as TriG writer/parser on both sides (a defect of rdflib is indistinguishable from one of prov except by reading the "
              "witness), the strict snapshot, the space filter. Bounded documents.")
DESIGN_REF = "DESIGN.md section 6, C07"
