"""C02 -- PROV-XML round trip preserves every document exactly (both values of force_types).

Oracle: strict(d) == strict(read(write(d))) as in C01, for force_types in {False, True}, written to a text target
(returned string / text stream: ASCII declaration, character references) and to a binary stream (UTF-8).  The xsi:type
the writer chose per (attribute class, value kind, force_types) cell is read off the emitted text by the independent
XML reader's parser (no hook inside the function) and tallied, with a floor on every cell class.
"""
import io
import xml.etree.ElementTree as ET

from pv import gen, strict, interp, findings
from pv.checks import common
from pv.runner import case_rng

import prov.model as pm
from prov.identifier import Identifier, QualifiedName

ID = "C02"
LEVEL = "exploration"
ANCHORS = ["prov.serializers.provxml:ProvXMLSerializer.serialize", "prov.serializers.provxml:ProvXMLSerializer.serialize_bundle",
           "prov.serializers.provxml:ProvXMLSerializer.deserialize_subtree", "prov.serializers.provxml:ProvXMLSerializer._derive_record_label",
           "prov.serializers.provxml:_extract_attributes", "prov.serializers.provxml:xml_qname_to_QualifiedName", "prov.model:sorted_attributes"]
XSI_TYPE = "{http://www.w3.org/2001/XMLSchema-instance}type"


def plan(tier, seed):
    return {
        "cases": 8000 if tier == "quick" else 160000,
        "hashseeds": [0] if tier == "quick" else [0, 1, 2, 3],
        "timeout_s": 300 if tier == "quick" else 3000,
        "rule": "case = a c02-profile program x force_types in {False, True} x destination in {returned string, text stream, binary stream}; "
                "the post-build filter re-checks every clause of the C02 quantifier on the built document (skipped cases are counted). "
                "distinct = canonical program hash; non-trivial = >= 1 record and both force_types values judged",
        "assumptions": [
            "input space as in the quantifier: attribute-name local parts are NCNames, strings are XML 1.0 Chars without CR, prov:label values "
            "are plain or language-tagged strings, no literal typed xsd:QName; additionally namespace URIs are ASCII (lxml refuses IRIs as "
            "namespace names)",
            "the strict snapshot (URI level, kind aware) is the judge; lxml is only used by the library itself",
        ],
    }


def setup_worker(ctx):
    common.setup(ctx, ANCHORS)
    common.ELSEWHERE["one_in"] = 60      # one document in sixty is built by another interpreter process and arrives by pickle


def finish_worker(ctx):
    common.finish(ctx)


def make_case(ctx, idx):
    r = case_rng(ctx.seed, ID, idx)
    return {"ops": gen.Gen(r, gen.profile("c02", multi_member=0.15)).program(), "dest": r.choice(["str", "text", "bytes", "text_file_other_codec"])}


def xml_char_ok(s):
    for ch in s:
        o = ord(ch)
        if not (o in (0x9, 0xA) or 0x20 <= o <= 0xD7FF or 0xE000 <= o <= 0xFFFD or 0x10000 <= o <= 0x10FFFF):
            return False
    return True


def ncname(s):
    import re
    return bool(re.match(r"^[^\W\d][\w.\-]*$", s, re.UNICODE)) and ":" not in s


def in_space(doc):
    for b in [doc] + list(doc.bundles):
        for ns in b.namespaces:
            if not ns.uri.isascii():
                return "non-ASCII namespace URI"
        d = b.get_default_namespace()
        if d is not None and not d.uri.isascii():
            return "non-ASCII namespace URI"
        for rec in b._records:
            for a, vs in rec._attributes.items():
                if not ncname(a.localpart):
                    return "attribute local part %r is not an NCName" % a.localpart
                if not a.namespace.uri.isascii():
                    return "non-ASCII namespace URI"
                for v in vs:
                    if isinstance(v, str):
                        if not xml_char_ok(v):
                            return "string with non-XML character or CR"
                    elif isinstance(v, pm.Literal):
                        if not xml_char_ok(v.value):
                            return "string with non-XML character or CR"
                        if v.datatype is not None and v.datatype.uri == "http://www.w3.org/2001/XMLSchema#QName":
                            return "literal typed xsd:QName"
                        if v.datatype is not None and not v.datatype.namespace.uri.isascii():
                            return "non-ASCII namespace URI"
                    elif isinstance(v, QualifiedName):
                        if not v.namespace.uri.isascii():
                            return "non-ASCII namespace URI"
                    elif isinstance(v, Identifier):
                        if not xml_char_ok(v.uri):
                            return "URI value outside the space"
                    if a.uri == "http://www.w3.org/ns/prov#label":
                        if not (isinstance(v, str) or (isinstance(v, pm.Literal) and v.langtag)):
                            return "prov:label value is not a plain or language-tagged string"
            if rec._identifier is not None and not rec._identifier.namespace.uri.isascii():
                return "non-ASCII namespace URI"
        if b.identifier is not None and not b.identifier.namespace.uri.isascii():
            return "non-ASCII namespace URI"
    return None


def write(doc, force, dest):
    if dest == "str":
        return doc.serialize(format="xml", force_types=force)
    if dest == "text":
        s = io.StringIO()
        doc.serialize(s, format="xml", force_types=force)
        return s.getvalue()
    if dest == "text_file_other_codec":
        return ("TEXT-STREAM", common.text_file_roundtrip(doc, "xml", force_types=force)[0])
    b = io.BytesIO()
    doc.serialize(b, format="xml", force_types=force)
    return b.getvalue()


def roundtrip_problems(doc, force, dest):
    a = strict.strict(doc)
    try:
        out = write(doc, force, dest)
    except Exception as e:
        return ["serialize raised %s: %s" % (type(e).__name__, str(e)[:200])], None
    try:
        if isinstance(out, tuple):
            # written through a text stream: read through a text stream (what a caller does with a text file)
            out = out[1]
            d2 = pm.ProvDocument.deserialize(io.StringIO(out), format="xml")
        elif isinstance(out, bytes):
            d2 = pm.ProvDocument.deserialize(io.BytesIO(out), format="xml")
        else:
            d2 = pm.ProvDocument.deserialize(content=out, format="xml")
    except Exception as e:
        return ["deserialize raised %s: %s" % (type(e).__name__, str(e)[:200])], out
    b = strict.strict(d2)
    if a != b:
        return [{"diff": strict.diff(a, b)}], out
    return [], out


def tally_types(ctx, out, force):
    """Which xsi:type did the writer choose per (attribute class, force_types)?  Read from the text itself."""
    try:
        root = ET.fromstring(out if isinstance(out, bytes) else out.encode("ascii", "xmlcharrefreplace"))
    except Exception:
        ctx.count("typetable.unparsable")
        return
    P = "{http://www.w3.org/ns/prov#}"
    for rec in root.iter():
        for ch in list(rec):
            if not len(ch) and rec is not root and rec.tag != P + "bundleContent":
                tag = ch.tag
                cls = "prov:" + tag[len(P):] if tag.startswith(P) else "other"
                if cls.startswith("prov:") and cls[5:] not in ("type", "label", "value", "location", "role"):
                    cls = "prov:formal"
                t = ch.attrib.get(XSI_TYPE, "-")
                if "lang" in "".join(ch.attrib):
                    t = "@lang"
                ctx.count("typetable.%s.force=%s.%s" % (cls, force, t.split(":")[-1]))
            if ch.tag in (P + "person", P + "organization", P + "softwareAgent", P + "plan", P + "collection", P + "emptyCollection",
                          P + "wasRevisionOf", P + "wasQuotedFrom", P + "hadPrimarySource"):
                ctx.count("subtype_element.%s" % ch.tag[len(P):])


def judge(ctx, idx, case):
    ctx.hub.context = {"check": ID, "idx": idx}
    st = common.build(case["ops"])
    doc = st.doc
    common.tally_program(ctx, case["ops"], st)
    why = in_space(doc)
    if why:
        ctx.count("skipped.outside_space")
        ctx.count("skipped: %s" % why[:40])
        common.drain_monitors(ctx, idx, case)
        return
    common.tally_doc(ctx, doc)
    for force in (False, True):
        problems, out = roundtrip_problems(doc, force, case["dest"])
        ctx.count("roundtrips")
        ctx.count("dest.%s" % case["dest"])
        if out is not None:
            tally_types(ctx, out, force)
        if problems:
            fid = findings.attribute(ID, case, lambda c: roundtrip_problems(common.build(c["ops"]).doc, force, c["dest"])[0])
            if fid:
                ctx.known_finding(fid, str(problems[0])[:200], {"idx": idx})
            else:
                text = out.decode("utf-8", "replace") if isinstance(out, bytes) else (out or "")
                ctx.violation(idx, "PROV-XML round trip (force_types=%s, %s): %s" % (force, case["dest"], str(problems[0])[:260]), case,
                              {"problems": problems, "text": text[:5000], "force_types": force})
            break
    if common.nontrivial(doc):
        ctx.hashes.add(gen.case_hash(case["ops"]))
        ctx.sample({"program": case["ops"], "destination": case["dest"]}, limit=2)
    common.drain_monitors(ctx, idx, case)


def run_case(ctx, idx):
    judge(ctx, idx, make_case(ctx, idx))


def replay(ctx, rec):
    judge(ctx, rec["idx"], rec["payload"])


def floors(counters, tier, extra):
    out = []
    need = 100 if tier == "quick" else 1000
    if counters.get("roundtrips", 0) < 4000:
        out.append("only %d round trips judged" % counters.get("roundtrips", 0))
    for kind in gen.KINDS:
        if sum(v for k, v in counters.items() if k.startswith("kind.%s." % kind)) < need:
            out.append("kind %s under-represented" % kind)
    for cls in ("prov:type", "prov:label", "prov:value", "prov:location", "prov:role", "other", "prov:formal"):
        for force in (False, True):
            if sum(v for k, v in counters.items() if k.startswith("typetable.%s.force=%s." % (cls, force))) < need:
                out.append("type table cell class %s/force=%s populated only thinly" % (cls, force))
    for t in ("string", "int", "double", "boolean", "dateTime", "anyURI", "QName", "@lang", "-"):
        if sum(v for k, v in counters.items() if k.startswith("typetable.") and k.endswith("." + t)) < need:
            out.append("xsi:type %s chosen only rarely" % t)
    for k in ("subtype_element.person", "subtype_element.collection", "subtype_element.wasRevisionOf", "ns.default_at_document",
              "ns.default_at_bundle", "ns.bundle_declares_prefixes", "dest.bytes", "dest.text", "dest.str"):
        if counters.get(k, 0) < need // 12:
            out.append("%s seen only %d times" % (k, counters.get(k, 0)))
    out.extend(common.cov_floor(extra))
    return out


TECHNIQUE = "runtime monitoring: generated API programs, strict URI-level snapshot oracle on PROV-XML write/read executions (both force_types)"
LEVEL_TEXT = ("Exploration by runtime observation: generated public-API programs inside the C02 input space (re-checked on every built document) "
              "are written as PROV-XML with force_types False and True to string, text-stream and binary-stream destinations and read back; a "
              "strict, URI-level, kind-aware multiset snapshot decides equality. The xsi:type chosen per attribute class x value kind x "
              "force_types is tallied from the emitted text so that the evidence shows the product the property is about was populated.")
LEVEL_NOTE = "Trusted: the strict snapshot; xml.etree only for tallying. Bounded documents; space exclusions listed in the evidence assumptions."
DESIGN_REF = "DESIGN.md section 6, C02"
