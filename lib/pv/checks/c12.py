"""C12 -- derived documents and copied records share no mutable state with their sources.

Deciding observation (behavioural): snapshot both sides (strict content + namespace view), apply one mutator to one
side, re-snapshot the other side: it must not have changed.  The structural monitor ALIAS walks both object graphs and
intersects the identities of the mutable containers named in the property's anchors; a non-empty intersection is
reported in the evidence and selects the mutation that goes through the shared object, so a sharing that exists is
also exercised.
"""
import random

from pv import gen, monitors, strict, interp
from pv.checks import common
from pv.runner import case_rng

import prov.model as pm
from prov.identifier import Namespace

ID = "C12"
LEVEL = "exploration"
ANCHORS = ["prov.model:ProvRecord.copy", "prov.model:ProvBundle.add_record", "prov.model:ProvDocument.unified", "prov.model:ProvBundle.unified",
           "prov.model:ProvDocument.add_bundle", "prov.model:ProvDocument.flattened", "prov.model:ProvDocument.update", "prov.model:ProvBundle.update",
           "prov.model:ProvBundle.__init__", "prov.model:NamespaceManager.__init__"]
DERIVE = ["copy", "add_record", "add_record_same_document", "update_self", "ctor", "update", "add_bundle_doc", "unified", "bundle_unified",
          "flattened", "json", "xml", "rdf", "deepcopy"]
MUTATORS = ["add_attribute", "add_value", "add_formal", "add_record", "add_namespace", "set_default", "add_bundle"]


def plan(tier, seed):
    return {
        "cases": 5000 if tier == "quick" else 60000,
        "hashseeds": [0] if tier == "quick" else [0, 1, 2, 3],
        "timeout_s": 300 if tier == "quick" else 3000,
        "rule": "case = a c01 program (source) x 3 deriving operations x 2 follow-up mutations each, applied to the result or to the source; "
                "the other side's strict content and namespace view are compared before/after. distinct = canonical hash; non-trivial = >= 1 "
                "(derivation, mutation) pair was judged on a source with >= 1 record",
        "assumptions": ["immutable-by-convention objects (Namespace, QualifiedName, datetime, Literal) may be shared legitimately and are not walked",
                        "flattened() of a bundle-free document returns the document itself by documented design: judged only with bundles"],
    }


def setup_worker(ctx):
    common.setup(ctx, ANCHORS)


def finish_worker(ctx):
    common.finish(ctx)


def make_case(ctx, idx):
    r = case_rng(ctx.seed, ID, idx)
    if r.random() < 0.5:
        # identifiers from a small pool: same-kind records sharing an identifier (merged by unified()) inside and outside bundles
        prof = gen.profile("c02", p_repeat_id=0.6, locals=["e1", "e2", "a1"], prefixes=["ex", "ex2"], ns_uris=["http://ex.org/", "urn:x:"],
                           kinds=("Entity", "Entity", "Activity", "Agent", "Generation", "Usage", "Derivation", "Attribution"), max_steps=16)
    else:
        prof = gen.profile("c02", p_repeat_id=0.2)
    return {"ops": gen.Gen(r, prof).program(), "other": gen.Gen(r, gen.profile("c02", max_steps=5)).program(),
            "derive": r.sample(DERIVE, 3), "seed": r.randint(0, 2 ** 30)}


# ---- structural walk -------------------------------------------------------------------------------
def mutable_ids(root, records_only=None):
    """id -> description of every mutable container reachable from a document/bundle (or one record)."""
    out = {}

    def rec(r_, where):
        out[id(r_)] = "%s record object" % where
        out[id(r_._attributes)] = "%s record._attributes" % where
        for a, vs in r_._attributes.items():
            out[id(vs)] = "%s value set of %s" % (where, a)

    def container(c, where):
        out[id(c)] = "%s container object" % where
        out[id(c._records)] = "%s _records" % where
        out[id(c._id_map)] = "%s _id_map" % where
        for k, lst in c._id_map.items():
            out[id(lst)] = "%s _id_map list" % where
        nm = c._namespaces
        out[id(nm)] = "%s NamespaceManager" % where
        for attr in ("_namespaces", "_uri_map", "_rename_map", "_prefix_renamed_map"):
            out[id(getattr(nm, attr))] = "%s NamespaceManager.%s" % (where, attr)
        for r_ in c._records:
            rec(r_, where)

    if isinstance(root, pm.ProvRecord):
        rec(root, "the")
        return out
    container(root, "document" if root.is_document() else "bundle")
    if root.is_document():
        out[id(root._bundles)] = "document _bundles"
        for b in root._bundles.values():
            container(b, "bundle %s" % getattr(b.identifier, "uri", None))
    return out


def view(x):
    if isinstance(x, pm.ProvRecord):
        return strict.rec_key(x)
    if x.is_document():
        return (strict.strict(x), strict.nsview(x), strict.printed(x))
    return (strict.snap_bundle(x), strict.nsview_scope(x), getattr(x.identifier, "uri", None), strict.printed(x))


def mutate(x, how, r, shared_hint=None):
    """Apply one mutator to a document / bundle / record. Returns False when not applicable."""
    NSX = Namespace("mut%d" % r.randint(0, 9), "http://mutation.example/%d/" % r.randint(0, 9))
    def add_value(rec):
        """A further value under an attribute name the record already has (goes through the existing value set)."""
        names = [a for a, vs in rec._attributes.items() if vs and a.uri not in monitors.FORMAL]
        if not names:
            return False
        rec.add_attributes([(r.choice(names), "mutated-%d" % r.randint(0, 999))])
        return True

    def add_formal(rec):
        """Supply a formal attribute the record was created without (an optional argument that was left out)."""
        import datetime
        kind = rec.get_type().localpart
        have = {a.localpart for a, vs in rec._attributes.items() if vs and a.uri.startswith(monitors.PROVNS)}
        missing = [f for f in gen.KINDS.get(kind, (None, []))[1] if f not in have]
        if not missing:
            return False
        f = r.choice(missing)
        v = datetime.datetime(2031, 1, 2, 3, 4, r.randint(0, 59)) if f in gen.TIME_ATTRS else NSX["late%d" % r.randint(0, 9)]
        rec.add_attributes([(pm.PROV[f], v)])
        return True

    if isinstance(x, pm.ProvRecord):
        if how == "add_value":
            return add_value(x)
        if how == "add_formal":
            return add_formal(x)
        if how != "add_attribute":
            return False
        x.add_attributes([(NSX["attr"], "mutated")])
        return True
    containers = [x] + (list(x.bundles) if x.is_document() else [])
    if how in ("add_attribute", "add_value", "add_formal"):
        recs = [rec for c in containers for rec in c._records]
        if not recs:
            return False
        if how == "add_formal":
            r.shuffle(recs)
            done = [add_formal(rec) for rec in recs[:12]]
            return any(done)
        if how == "add_value":
            r.shuffle(recs)
            return any(add_value(rec) for rec in recs[:1]) or any(add_value(rec) for rec in recs[1:4])
        for rec in recs[:16]:
            rec.add_attributes([(NSX["attr"], "mutated")])
        return True
    if how == "add_record":
        r.choice(containers).entity(NSX["newrec"], {NSX["k"]: 1})
        return True
    if how == "add_record_everywhere":
        for c in containers:
            c.entity(NSX["newrec"], {NSX["k"]: 1})
        return True
    if how == "add_namespace_everywhere":
        for c in containers:
            c.add_namespace(NSX.prefix, NSX.uri)
        return True
    if how == "add_namespace":
        r.choice(containers).add_namespace(NSX.prefix, NSX.uri)
        return True
    if how == "set_default":
        c = r.choice(containers)
        c.set_default_namespace("http://mutation.example/default/%d/" % r.randint(0, 9))
        return True
    if how == "add_bundle":
        if not x.is_document():
            return False
        b = x.bundle(NSX["newbundle%d" % r.randint(0, 99)])
        b.entity(NSX["inner"])
        return True
    raise AssertionError(how)


def unrelated_work(idx, n=4500, per_record=150):
    d = pm.ProvDocument()
    d.add_namespace("w", "http://work.example/%d/" % idx)
    for k in range(0, n, per_record):
        # few records (the background monitors look at every record added), many names and values
        d.entity("w:e%d" % k, [("w:a%d" % i, "value %d of %d" % (i, idx)) for i in range(k, k + per_record)]
                 + [("prov:type", d.valid_qualified_name("w:t%d" % i)) for i in range(k, k + per_record, 3)])
    d.serialize(format="json")


def judge(ctx, idx, case):
    ctx.hub.context = {"check": ID, "idx": idx}
    r = random.Random(case["seed"])
    problems = []
    judged = 0
    for dname in case["derive"]:
        # fresh source for every derivation: mutations must not accumulate across judgements
        src = common.build(case["ops"]).doc
        other = interp.run(case["other"]).doc
        if dname in ("update", "add_record", "add_bundle_doc") and r.random() < 0.5:
            # the receiving document already binds the source's prefixes to other namespaces: everything copied over gets renamed
            # there, which must not show on the source side
            for ns in list(src.namespaces) + [n for b in src.bundles for n in b.namespaces]:
                try:
                    other.add_namespace(ns.prefix, "http://clash.example/%s/" % ns.prefix)
                except Exception:
                    pass
            ctx.count("derive.%s.with_prefix_clashes" % dname)
        src_before = view(src)
        try:
            if dname == "copy":
                recs = [x for c in [src] + list(src.bundles) for x in c._records]
                if not recs:
                    continue
                s = r.choice(recs)
                pairs = [(s, s.copy())]
            elif dname == "add_record":
                recs = [x for c in [src] + list(src.bundles) for x in c._records]
                if not recs:
                    continue
                s = r.choice(recs)
                tgt = r.choice([other] + list(other.bundles))
                pairs = [(s, tgt.add_record(s)), (src, other)]
            elif dname == "add_record_same_document":
                # a record added to the container it already belongs to (or to a sibling container of the same document) is a
                # new record as well: the two statements are independent from then on
                recs = [x for c in [src] + list(src.bundles) for x in c._records]
                if not recs:
                    continue
                s = r.choice(recs)
                tgt = s.bundle if r.random() < 0.6 else r.choice([src] + list(src.bundles))
                new = tgt.add_record(s)
                src_before = view(src)      # adding to the source itself is the intended change
                pairs = [(s, new)]
            elif dname == "update_self":
                n = len(src._records)
                if not n:
                    continue
                src.update(src)
                src_before = view(src)
                if len(src._records) != 2 * n:
                    ctx.count("derive.update_self.unexpected_length")
                    continue
                i = r.randrange(n)
                pairs = [(src._records[i], src._records[n + i])]
            elif dname == "deepcopy":
                import copy as _copy
                pairs = [(src, _copy.deepcopy(src))]
            elif dname == "ctor":
                pairs = [(src, pm.ProvDocument(records=src.get_records(), namespaces=list(src.namespaces)))]
            elif dname == "update":
                other.update(src)
                pairs = [(src, other)]
            elif dname == "add_bundle_doc":
                flat = pm.ProvDocument(records=src.get_records(), namespaces=list(src.namespaces))
                flat_before = view(flat)
                how_id = r.choice(["qn_foreign", "qn_foreign", "str", "taken"])
                if how_id == "qn_foreign":
                    bid = Namespace("exb", "http://ex.org/bundles/")["added"]       # a namespace neither document knows
                elif how_id == "str" and list(other.namespaces):
                    bid = "%s:added" % r.choice(list(other.namespaces)).prefix          # a string resolved where the bundle will live
                else:
                    bid = r.choice(list(other.bundles)).identifier if (how_id == "taken" and list(other.bundles)) else Namespace("exb", "http://ex.org/bundles/")["added"]
                try:
                    other.add_bundle(flat, bid)
                    refused = False
                except pm.ProvException:
                    refused = True
                    ctx.count("derive.add_bundle_doc.refused_but_source_watched")
                if view(flat) != flat_before:
                    problems.append({"derive": dname, "problem": "add_bundle(document, id)%s changed the document that was passed in (content, namespaces or printed names)"
                                     % (" (refused)" if refused else "")})
                if refused:
                    continue
                pairs = [(flat, other), (src, other)]
            elif dname == "unified":
                u1 = src.unified()
                pairs = [(src, u1), (u1, src.unified()), (u1, u1.unified())]    # ... a second result is independent of the first, and
                #                                                                 the unified form of a unified document is again a new one
            elif dname == "bundle_unified":
                bs = list(src.bundles)
                if not bs:
                    continue
                b = r.choice(bs)
                bu1 = b.unified()
                pairs = [(b, bu1), (bu1, b.unified()), (src, b.unified())]
            elif dname == "flattened":
                if not list(src.bundles):
                    continue
                f1 = src.flattened()
                pairs = [(src, f1), (f1, src.flattened())]
            else:
                text = src.serialize(format=dname)
                if r.random() < 0.3:
                    # one serializer object is asked twice (prov.serializers.get(fmt)() is public API, and so is keeping it)
                    import io
                    import prov.serializers as _ser
                    one = _ser.get(dname)()
                    da, db = one.deserialize(io.StringIO(text)), one.deserialize(io.StringIO(text))
                    ctx.count("derive.%s.one_serializer_object_asked_twice" % dname)
                    pairs = [(src, da), (da, db)]
                else:
                    pairs = [(src, pm.ProvDocument.deserialize(content=text, format=dname)),
                             (pm.ProvDocument.deserialize(content=text, format=dname), pm.ProvDocument.deserialize(content=text, format=dname))]
        except pm.ProvException:
            ctx.count("derive.%s.refused" % dname)
            continue
        except Exception as e:
            ctx.count("derive.%s.raised.%s" % (dname, type(e).__name__))
            continue
        ctx.count("derive.%s.ok" % dname)
        if idx % 37 == 7:
            # the process does other work between the derivation and what follows: a document with thousands of names and values of
            # its own is built, exported and dropped (whatever the library keeps per process -- tables, caches -- sees a lot of traffic)
            unrelated_work(idx)
            ctx.count("unrelated_work_between_derivation_and_mutation")
        if view(src) != src_before:
            # the deriving operation itself is not a modification of the source
            after = view(src)
            which = "content" if after[0] != src_before[0] else ("namespaces" if after[1] != src_before[1] else "printed names")
            problems.append({"derive": dname, "problem": "the deriving operation itself changed the source (%s)" % which,
                             "before": strict.jsonable([x for x in src_before[2] if x not in after[2]][:2]) if which == "printed names" else None,
                             "after": strict.jsonable([x for x in after[2] if x not in src_before[2]][:2]) if which == "printed names" else None})
        # every document of these derivations is independent of every other one (the source, a first result, a second result): while
        # one of them is mutated, all the others are watched, not only its partner of the pair
        family = []
        if dname in ("unified", "flattened", "json", "xml", "rdf"):
            for pair in pairs:
                for o in pair:
                    if not any(o is x for x in family):
                        family.append(o)
        for a, b in pairs:
            if a is b:
                problems.append({"derive": dname, "problem": "the operation returned its source object"})
                continue
            # structural monitor
            ia, ib = mutable_ids(a), mutable_ids(b)
            shared = sorted({ia[k] + " == " + ib[k] for k in set(ia) & set(ib)})
            ctx.count("alias_walks")
            if shared:
                ctx.count("alias.shared_containers.%s" % dname)
            for side in ("result", "source"):
                target, watched = (b, a) if side == "result" else (a, b)
                # the structural walk directs the mutations: a shared container is written through on *every* container of the
                # mutated side, so that the shared one is certainly among them
                for how in r.sample(MUTATORS, 2) + (["add_namespace", "set_default", "add_namespace_everywhere"] if any("NamespaceManager" in s for s in shared) else []) \
                        + (["add_attribute", "add_value", "add_formal"] if any("record" in s or "value set" in s for s in shared) else []) \
                        + (["add_record_everywhere"] if any("_records" in s or "container object" in s for s in shared) else []):
                    if dname in ("copy", "add_record_same_document", "update_self") and how not in ("add_attribute", "add_value", "add_formal"):
                        continue
                    before = view(watched)
                    bystanders = [o for o in family if o is not target and o is not watched]
                    before_by = [view(o) for o in bystanders]
                    try:
                        if not mutate(target, how, r):
                            continue
                    except pm.ProvException:
                        ctx.count("mutation.refused")
                        continue
                    after = view(watched)
                    judged += 1
                    ctx.count("judged.%s.%s.%s" % (dname, how, side))
                    if bystanders:
                        ctx.count("bystanders_watched", len(bystanders))
                        changed = [i for i, o in enumerate(bystanders) if view(o) != before_by[i]]
                        if changed:
                            problems.append({"derive": dname, "mutation": how, "mutated": side,
                                             "problem": "mutating the %s through %s changed another document derived from the same source "
                                                        "(%d documents of this derivation were watched)" % (side, how, len(bystanders))})
                            break
                    if before != after:
                        problems.append({"derive": dname, "mutation": how, "mutated": side,
                                         "problem": "mutating the %s through %s changed the %s" % (side, how, "source" if side == "result" else "result"),
                                         "shared_containers": shared[:6],
                                         "before": strict.jsonable(before)[:3] if isinstance(before, tuple) else None,
                                         "after": strict.jsonable(after)[:3] if isinstance(after, tuple) else None})
                        break
            if shared and not problems:
                # sharing that could not be turned into an observable change is still reported (evidence), not judged
                ctx.count("alias.shared_but_unobservable.%s" % dname)
    common.drain_monitors(ctx, idx, case)
    if problems:
        ctx.violation(idx, "%s: %s" % (problems[0].get("derive"), problems[0]["problem"]), case, {"problems": strict.jsonable(problems[:3])})
    if judged:
        ctx.hashes.add(gen.case_hash(case))
        ctx.sample({"program": case["ops"], "derive": case["derive"]}, limit=2)


def run_case(ctx, idx):
    judge(ctx, idx, make_case(ctx, idx))


def replay(ctx, rec):
    judge(ctx, rec["idx"], rec["payload"])


def floors(counters, tier, extra):
    out = []
    need = 100 if tier == "quick" else 1000
    for d in DERIVE:
        n = sum(v for k, v in counters.items() if k.startswith("judged.%s." % d))
        if n < need:
            out.append("derivation %s judged only %d times" % (d, n))
    for m in MUTATORS:
        for side in ("result", "source"):
            n = sum(v for k, v in counters.items() if k.startswith("judged.") and k.endswith(".%s.%s" % (m, side)))
            if n < need:
                out.append("mutator %s on %s judged only %d times" % (m, side, n))
    if counters.get("unrelated_work_between_derivation_and_mutation", 0) < need:
        out.append("unrelated work between derivation and mutation only %d times" % counters.get("unrelated_work_between_derivation_and_mutation", 0))
    if counters.get("alias_walks", 0) < need:
        out.append("structural walk ran only %d times" % counters.get("alias_walks", 0))
    out.extend(common.cov_floor(extra))
    return out


TECHNIQUE = "runtime monitoring: mutate-one-side / observe-the-other on real object graphs, directed by a structural alias walk (identity sets)"
LEVEL_TEXT = ("Exploration by runtime observation: for generated documents and each deriving operation (record copy, add_record, constructor "
              "records, update, add_bundle of a document, unified of documents and bundles, flattened, JSON/XML/RDF deserialisation) a mutator "
              "(add attribute / record / namespace / default namespace / bundle) is applied to the result or to the source and the other side's "
              "strict content and namespace view are compared before/after; a structural walk intersecting the identities of the mutable "
              "containers of both object graphs directs the mutation through any shared object."
              " Derivations include add_record into the record's own document, update(self), second-order unified() and deepcopy; mutators include supplying a missing formal attribute and writing through every container when the structural walk sees sharing; one case in 37 does unrelated work (a document with 4500 names and values) between derivation and mutation; all other documents of a unified / flattened / deserialisation derivation are watched while one is mutated; 30% of the deserialisations ask one serializer object twice.")
LEVEL_NOTE = "Trusted: snapshots; immutable-by-convention value objects are deliberately not treated as shared state. Bounded documents."
DESIGN_REF = "DESIGN.md section 5 (ALIAS) and section 6, C12"
