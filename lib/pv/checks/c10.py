"""C10 -- emitted PROV-JSON and PROV-XML mean the same to an independent reader.

Oracle: pv.readers.provjson / pv.readers.provxml, written from the specifications and sharing no code with the library:
the emitted text must satisfy the structural rules they enforce and their reading must equal the strict snapshot of
the source.  This is what notices a *symmetric* writer+reader mistake, which the self round trips C01/C02 cannot.
"""
import io

from pv import gen, strict, interp, findings
from pv.checks import common, c01, c02
from pv.readers import provjson as jr, provxml as xr
from pv.readers.common import ReaderError
from pv.runner import case_rng

import prov.model as pm

ID = "C10"
LEVEL = "exploration"
ANCHORS = ["prov.serializers.provjson:encode_json_document", "prov.serializers.provjson:encode_json_container",
           "prov.serializers.provjson:encode_json_representation", "prov.serializers.provjson:literal_json_representation",
           "prov.serializers.provxml:ProvXMLSerializer.serialize_bundle", "prov.serializers.provxml:ProvXMLSerializer._derive_record_label",
           "prov.model:sorted_attributes"]


def plan(tier, seed):
    return {
        "cases": 10000 if tier == "quick" else 200000,
        "hashseeds": [0] if tier == "quick" else [0, 1, 2, 3],
        "timeout_s": 300 if tier == "quick" else 3000,
        "rule": "case = (50%) a c01 program written as PROV-JSON with a sampled json.dump option set, or (50%) a c02 program (post-build "
                "filter of C02) written as PROV-XML with force_types False and True; the text is read by the independent reader and compared "
                "with the strict snapshot. distinct = canonical hash of (format, program); non-trivial = >= 1 record and the independent "
                "reading was compared",
        "assumptions": [
            "our reading of the PROV-JSON member submission and of the PROV-XML note (pv/readers); both readers were cross-validated against "
            "the library's own reading on the shipped corpora and examples (counts in the evidence)",
            "a bundle identifier that denotes different URIs in document scope and bundle scope is ambiguous in PROV-JSON: skipped and counted",
            "xsd:int/xsd:long denote Python int, xsd:double float, xsd:boolean bool, xsd:string str, xsd:anyURI a URI value, xsd:dateTime a "
            "datetime; any other datatype stays a typed literal",
        ],
    }


def setup_worker(ctx):
    common.setup(ctx, ANCHORS)
    common.ELSEWHERE["one_in"] = 60      # one document in sixty is built by another interpreter process and arrives by pickle


def finish_worker(ctx):
    common.finish(ctx)


def make_case(ctx, idx):
    r = case_rng(ctx.seed, ID, idx)
    if r.random() < 0.5:
        return {"fmt": "json", "ops": gen.Gen(r, gen.profile("c01", multi_member=0.15)).program(), "opt": r.randrange(len(c01.OPTS))}
    return {"fmt": "xml", "ops": gen.Gen(r, gen.profile("c02", multi_member=0.15, prov_alias_attrs=0.12)).program(), "dest": r.choice(["str", "bytes"])}


def problems_json(doc, opt):
    want = strict.strict(doc)
    try:
        text = doc.serialize(format="json", **opt)
    except Exception as e:
        return ["serialize raised %s: %s" % (type(e).__name__, str(e)[:200])], None, None
    try:
        got, notes = jr.read(text)
    except ReaderError as e:
        return ["the text breaks PROV-JSON: %s" % str(e)[:300]], text, None
    except Exception as e:
        return ["independent reader failed on the text (%s: %s)" % (type(e).__name__, str(e)[:200])], text, None
    problems = []
    # content (bundle keys read leniently: in the bundle's scope, else the document's); the scope of the keys is judged separately
    if notes["structural_problems"]:
        problems.append("structural: %s" % notes["structural_problems"][:3])
    elif got != want:
        problems.append({"diff": strict.diff(want, got)})
    return problems, text, notes


def scope_problems(notes):
    out = []
    if notes and notes["bundle_ids_outside_document_scope"]:
        out.append("the key %r of the document-level 'bundle' object cannot be resolved with the document's own prefix declarations (only "
                   "with those inside the bundle, where it denotes <%s>)" % tuple(notes["bundle_ids_outside_document_scope"][0]))
    if notes and notes["ambiguous_bundle_ids"]:
        out.append("the key %r of the document-level 'bundle' object denotes <%s> under the bundle's declarations but <%s> under the "
                   "document's" % tuple(notes["ambiguous_bundle_ids"][0]))
    return out


def problems_xml(doc, force, dest):
    want = strict.strict(doc)
    try:
        out = c02.write(doc, force, dest)
    except Exception as e:
        return ["serialize raised %s: %s" % (type(e).__name__, str(e)[:200])], None
    try:
        got, notes = xr.read(out)
    except ReaderError as e:
        return ["the text breaks PROV-XML: %s" % str(e)[:300]], out
    except Exception as e:
        return ["independent reader failed on the text (%s: %s)" % (type(e).__name__, str(e)[:200])], out
    if notes["structural_problems"]:
        return ["structural: %s" % notes["structural_problems"][:3]], out
    if got != want:
        return [{"diff": strict.diff(want, got)}], out
    return [], out


def judge(ctx, idx, case):
    ctx.hub.context = {"check": ID, "idx": idx}
    st = common.build(case["ops"])
    doc = st.doc
    common.tally_program(ctx, case["ops"], st)
    text = None
    problems = []
    if case["fmt"] == "json":
        if c01.same_kind_collision(doc):
            ctx.count("skipped.equal_values_of_different_kind")
            common.drain_monitors(ctx, idx, case)
            return
        opt = c01.OPTS[case["opt"]]
        problems, text, jnotes = problems_json(doc, opt)
        ctx.count("json_texts_read")
        rejudge = lambda c: problems_json(common.build(c["ops"]).doc, opt)[0]
    else:
        why = c02.in_space(doc)
        if why:
            ctx.count("skipped.outside_xml_space")
            common.drain_monitors(ctx, idx, case)
            return
        for force in (False, True):
            problems, out = problems_xml(doc, force, case["dest"])
            ctx.count("xml_texts_read")
            text = out.decode("utf-8", "replace") if isinstance(out, bytes) else out
            if problems:
                break
        rejudge = lambda c: problems_xml(common.build(c["ops"]).doc, force, c["dest"])[0]
    common.tally_doc(ctx, doc)
    if not problems and getattr(st, "intent_problems", None):
        # the text is faithful to a document that does not declare what its constructor was given: the reader of the text gets other URIs
        # than the program stated
        problems = ["%s; the emitted %s therefore denotes other URIs than the program stated" % (st.intent_problems[0], case["fmt"])]
    if case["fmt"] == "json" and not problems and scope_problems(jnotes):
        fid = findings.bundle_scope_finding(ID, st, jnotes)
        if fid:
            ctx.known_finding(fid, scope_problems(jnotes)[0][:200], {"idx": idx})
        else:
            ctx.violation(idx, "independent json reading: %s" % scope_problems(jnotes)[0][:280], case, {"problems": scope_problems(jnotes), "text": (text or "")[:5000]})
    elif problems:
        fid = findings.attribute(ID, case, rejudge)
        if fid:
            ctx.known_finding(fid, str(problems[0])[:200], {"idx": idx})
        else:
            ctx.violation(idx, "independent %s reading: %s" % (case["fmt"], str(problems[0])[:280]), case, {"problems": problems[:3], "text": (text or "")[:5000]})
    if common.nontrivial(doc):
        ctx.hashes.add(gen.case_hash([case["fmt"], case["ops"]]))
        ctx.sample({"format": case["fmt"], "program": case["ops"]}, limit=2)
    common.drain_monitors(ctx, idx, case)


def run_case(ctx, idx):
    judge(ctx, idx, make_case(ctx, idx))


def replay(ctx, rec):
    judge(ctx, rec["idx"], rec["payload"])


def floors(counters, tier, extra):
    out = []
    need = 100 if tier == "quick" else 1000
    if counters.get("json_texts_read", 0) < 2000 or counters.get("xml_texts_read", 0) < 2000:
        out.append("too few texts read (json %d, xml %d)" % (counters.get("json_texts_read", 0), counters.get("xml_texts_read", 0)))
    for kind in gen.KINDS:
        if sum(v for k, v in counters.items() if k.startswith("kind.%s." % kind)) < need:
            out.append("kind %s under-represented" % kind)
    for vk in gen.DEFAULT_PROFILE["value_kinds"]:
        if counters.get("value.%s" % vk, 0) < need:
            out.append("value kind %s seen %d times" % (vk, counters.get("value.%s" % vk, 0)))
    out.extend(common.cov_floor(extra))
    return out


TECHNIQUE = "runtime monitoring: emitted PROV-JSON/PROV-XML read by independent specification-based readers and compared with the strict snapshot"
LEVEL_TEXT = ("Exploration by runtime observation with independent oracles: the PROV-JSON (all json.dump option sets) and PROV-XML (both "
              "force_types, text and binary targets) texts emitted for generated documents are read by readers written from the specifications "
              "that share no code with the library (own prefix scoping, literal denotation, container layout, schema child order), which also "
              "enforce the structural rules; their reading must equal the strict snapshot of the source, so a symmetric writer/reader mistake "
              "or a renamed key is observable. XML cases also name PROV's attributes through a namespace object of the caller's own "
              "for the PROV namespace.")
LEVEL_NOTE = ("Trusted: json, xml.etree/expat and our two readers (cross-validated on the shipped corpora). The keys of the PROV-JSON "
              "'bundle' object are document-level names: they must resolve, to the same URI, with the document's own prefix declarations "
              "(open finding KF-C10-1 for stand-alone bundles attached with add_bundle()).")
DESIGN_REF = "DESIGN.md section 4.2 and section 6, C10"
