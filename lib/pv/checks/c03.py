"""C03 -- qualified names keep their URI and stay unambiguous under any namespace history.

Deciding monitor: NS (pv.monitors), attached to NamespaceManager.add_namespace / set_default_namespace /
valid_qualified_name of every scope.  Online, after every operation of a history it re-evaluates
  (a) resolving a QualifiedName never changes its URI,
  (b) a registered prefix is never re-pointed,
  (c) every name handed out by a scope, printed and resolved again in that scope, denotes the same URI
over all names handed out so far (on detached copies of the managers, so probing cannot perturb the run).
Workloads: dedicated namespace histories (document + up to 3 bundles), and full API programs of the
c01 profile followed by exports/unification/flattening (which resolve names internally).
"""
import json

from pv import gen, monitors, strict, interp, findings
from pv.checks import common
from pv.runner import case_rng

import prov.model as pm

ID = "C03"
LEVEL = "exploration"
ANCHORS = [
    "prov.model:NamespaceManager.add_namespace", "prov.model:NamespaceManager._get_unused_prefix",
    "prov.model:NamespaceManager.valid_qualified_name", "prov.model:NamespaceManager.set_default_namespace",
    "prov.model:NamespaceManager.add_namespaces", "prov.identifier:QualifiedName.__init__",
    "prov.identifier:Namespace.__getitem__",
]
URIS = gen.NS_URIS + ["http://www.w3.org/ns/prov#", "http://ex.org/sub", "urn:x:y:"]
PFX = gen.PREFIXES + ["prov", "xsd", "dn_2", "ex_1_1", "http", "urn"]
LOCALS = ["a", "b", "x.y", "sub/z", "été", "n1", "a-b", "sub#k", "tail ", " lead", "in ner", "a\u00a0"]


def plan(tier, seed):
    return {
        "cases": 40000 if tier == "quick" else 1200000,
        "hashseeds": [0] if tier == "quick" else [0, 1, 2],
        "timeout_s": 300 if tier == "quick" else 3000,
        "rule": "case = namespace history: 3..40 interleaved add_namespace / set_default_namespace / valid_qualified_name / "
                "bundle() operations on a document and up to 3 bundles (80% of cases), or a c01 API program followed by exports "
                "(20%); one case in 997 is a churn case (names kept from 20 dead documents asked of 120 fresh ones); all under the usage discipline (a scope's default namespace is bound once). distinct = canonical hash of "
                "the operation list; non-trivial = at least one name was handed out and clause (c) was re-evaluated at least once",
        "assumptions": [
            "usage discipline of the quantifier: a scope's default namespace is not re-bound after it was set, adopted, or "
            "inherited-and-used (enforced by the interpreter from observable state; the monitor also tracks it and stops judging "
            "bare names of a scope whose default was re-bound)",
            "printed names whose local part contains ':' with an empty prefix, or that look like blank nodes ('_:x'), are ambiguous "
            "by construction and not judged",
            "the (c) probe runs on detached copies of the namespace managers",
        ],
    }


def setup_worker(ctx):
    common.setup(ctx, ANCHORS)


def rand_x(r, declared, default):
    form = r.choice(["qn", "qn", "str", "local", "uri", "qn0"])
    local = r.choice(LOCALS)
    if form == "qn0":
        return {"form": "qn", "prefix": "", "ns": r.choice(URIS), "local": local}
    if form == "qn":
        if declared and r.random() < 0.5:
            p = r.choice(sorted(declared))
            u = declared[p] if r.random() < 0.7 else r.choice(URIS)
        else:
            p, u = r.choice(PFX), r.choice(URIS)
        return {"form": "qn", "prefix": p, "ns": u, "local": local, "odd": True}
    if form == "str":
        p = r.choice(sorted(declared)) if declared and r.random() < 0.8 else r.choice(PFX)
        return {"form": "str", "s": "%s:%s" % (p, local)}
    if form == "local":
        return {"form": "local", "s": local}
    u = declared[r.choice(sorted(declared))] if declared and r.random() < 0.7 else r.choice(URIS)
    return {"form": "uri", "s": u + local}


def make_history(r):
    ops, targets = [], ["D"]
    declared = {"D": {}}
    n = r.randint(3, 40)
    copy_at = r.randint(2, n) if r.random() < 0.15 else -1
    for step in range(n):
        if step == copy_at:
            # the document is deep-copied; original and copy then go their own ways (what one learns, the other must not know)
            ops.append(["deepcopy"])
            for t0 in list(targets):
                targets.append(t0 + "~")
                declared[t0 + "~"] = dict(declared[t0])
            declared["D~"] = dict(declared["D"])
            continue
        x = r.random()
        t = r.choice(targets)
        view = dict(declared["D~" if t.endswith("~") else "D"])
        view.update(declared[t])
        if x < 0.08 and len(targets) < 4 and copy_at < 0:
            b = "B%d" % (len(targets) - 1)
            ops.append(["bundle", b, rand_x(r, view, None)])
            targets.append(b)
            declared[b] = {}
        elif x < 0.30:
            p, u = r.choice(PFX), r.choice(URIS)
            ops.append(["ns", t, p, u])
            declared[t].setdefault(p, u)
        elif x < 0.38:
            ops.append(["dns", t, r.choice(URIS)])
        else:
            spec = rand_x(r, view, None)
            ops.append(["vqn", t, spec])
            if spec["form"] == "qn" and spec["prefix"]:
                declared[t].setdefault(spec["prefix"], spec["ns"])
    return ops


def make_case(ctx, idx):
    r = case_rng(ctx.seed, ID, idx)
    if idx % 997 == 5:
        return {"mode": "churn", "seed": r.randrange(2 ** 30), "ops": ["churn", idx]}
    if r.random() < 0.8:
        return {"mode": "history", "ops": make_history(r)}
    ops = gen.Gen(r, gen.profile("c01")).program()
    exports = r.sample(["json", "provn", "xml", "unified", "flattened", "dot"], r.randint(1, 3))
    return {"mode": "program", "ops": ops, "exports": exports}


def shape(ops, outcomes):
    sig = []
    for op, out in zip(ops, outcomes):
        tag = op[0]
        if op[0] == "vqn" or op[0] == "bundle":
            tag += ":" + op[2]["form"] + ("0" if op[2].get("prefix") == "" else "")
        where = (op[1][0] + ("~" if op[1].endswith("~") else "")) if len(op) > 1 else "-"
        sig.append("%s@%s%s" % (tag, where, "" if out == "ok" else "!"))
    return "|".join(sig)


def run_history(ctx, idx, case):
    hub = ctx.hub
    ops = case["ops"]
    reports = []
    api_handed = {}     # target -> {printed name: URI} as answered at the container's public method (not at the hooked manager)

    def on_step(i, op, out, res, st):
        if op[0] == "vqn" and out == "ok" and res is not None:
            # the same clauses at the API boundary: what the *container* answers (a layer above the hooked manager methods)
            spec = op[2]
            ctx.count("api_boundary.answers")
            if spec["form"] == "qn" and res.uri != spec["ns"] + spec["local"]:
                reports.append({"step": i, "op": op, "what": "(a) %s.valid_qualified_name(QualifiedName <%s>) answered <%s>"
                                % (op[1], spec["ns"] + spec["local"], res.uri), "witness": {"clause": "a", "at": "container method"}})
            printed = str(res)
            if not (not res.namespace.prefix and ":" in res.localpart):
                seen = api_handed.setdefault(op[1], {})
                if printed in seen and seen[printed] != res.uri and (":" in printed or not monitors.ns_state(st.tg[op[1]]._namespaces).undisciplined):
                    reports.append({"step": i, "op": op, "what": "(c) %s answered the printed name %r for <%s> and now for <%s>" % (op[1], printed, seen[printed], res.uri),
                                    "witness": {"clause": "c", "at": "container method"}})
                seen.setdefault(printed, res.uri)
        monitors.ns_full_check(st.doc)   # (b), (c) over all scopes and all names so far
        if "D~" in st.tg:
            monitors.ns_full_check(st.tg["D~"])
        if case["mode"] == "program":
            monitors.ns_held_check(st.doc)   # (c) over the names the records hold
        for mon, what, wit in hub.drain():
            if mon == "NS":
                reports.append({"step": i, "op": op, "what": what, "witness": wit})
            else:
                ctx.count("monitor_reports.%s" % mon)

    before = hub.counts["NS.c_checks"]
    handed = hub.counts["NS.names_handed_out"]
    st = interp.run(ops, on_step)
    for op, out in zip(ops, st.outcomes):
        ctx.count("op.%s.%s" % (op[0], out.split(":")[0]))
    ctx.count("history_len.%02d" % (10 * (len(ops) // 10)))
    if case["mode"] == "program":
        for e in case.get("exports", []):
            try:
                if e in ("json", "xml", "provn"):
                    st.doc.serialize(format=e)
                elif e == "unified":
                    st.doc.unified()
                elif e == "flattened":
                    st.doc.flattened()
                elif e == "dot":
                    from prov.dot import prov_to_dot
                    prov_to_dot(st.doc)
                ctx.count("export.%s.ok" % e)
            except Exception as ex:
                ctx.count("export.%s.%s" % (e, type(ex).__name__))
            on_step(len(ops), ["export", e], "ok", None, st)
    return st, reports, hub.counts["NS.c_checks"] - before, hub.counts["NS.names_handed_out"] - handed


def run_churn(ctx, idx, case):
    """Names outlive their documents: an application keeps the names that a few documents handed out, the documents die and are
    collected, and many fresh documents -- kept alive together, so that they spread over whatever memory the dead ones left -- are asked
    for those names.  The same clauses, judged by the same monitor at the same hooks."""
    import gc
    import random
    hub = ctx.hub
    r = random.Random(case["seed"])
    kept = []
    mine = []

    def harvest(i, op, out, res, st):
        if op[0] == "vqn" and out == "ok" and res is not None:
            mine.append(res)

    for _ in range(20):
        del mine[:]
        interp.run(make_history(r), harvest, use_pool=False)
        kept.extend(r.sample(mine, min(len(mine), 6)))      # a few names of every document
    del mine[:]
    hub.drain()
    gc.collect()
    before = hub.counts["NS.c_checks"]
    handed = hub.counts["NS.names_handed_out"]
    reports = []
    alive = []
    for j in range(120):
        ops = []
        x = r.random()
        if x < 0.4:
            ops.append(["dns", "D", r.choice(URIS)])
        elif x < 0.8:
            ops.append(["ns", "D", r.choice(PFX), r.choice(URIS)])
        alive.append(interp.run(ops, use_pool=False))
    st = alive[0]
    for j, st in enumerate(alive):
        for name in (kept if j % 8 == 0 else r.sample(kept, min(len(kept), 10))):
            try:
                st.doc.valid_qualified_name(name)
                ctx.count("churn.kept_name_asked_of_a_fresh_document")
            except pm.ProvException:
                ctx.count("churn.refused")
        monitors.ns_full_check(st.doc)
        for mon, what, wit in hub.drain():
            if mon == "NS":
                reports.append({"step": j, "op": ["a name kept from a dead document, asked of fresh document %d" % j], "what": what, "witness": wit})
            else:
                ctx.count("monitor_reports.%s" % mon)
        if reports:
            break
    ctx.count("churn.fresh_documents", len(alive))
    st.outcomes = []
    return st, reports, hub.counts["NS.c_checks"] - before, hub.counts["NS.names_handed_out"] - handed


def judge(ctx, idx, case):
    ctx.hub.context = {"check": ID, "idx": idx}
    if case["mode"] == "churn":
        st, reports, cchecks, handed = run_churn(ctx, idx, case)
    else:
        st, reports, cchecks, handed = run_history(ctx, idx, case)
    ctx.count("mode.%s" % case["mode"])
    for ip in getattr(st, "intent_problems", []):
        reports.append({"step": 0, "op": ["docinit"], "what": "(b) " + ip, "witness": {"clause": "b", "at": "constructor"}})
    if reports:
        ctx.violation(idx, "namespace history violates C03: %s" % reports[0]["what"], case,
                      {"reports": reports[:5], "outcomes": st.outcomes,
                       "nsview": strict.jsonable(strict.nsview(st.doc))})
    if handed > 0 and cchecks > 0:
        ctx.hashes.add(gen.case_hash(case["ops"]))
        if case["mode"] == "history":
            ctx.shapes.add(gen.case_hash(shape(case["ops"], st.outcomes)))
        ctx.sample({"history": case["ops"], "outcomes": st.outcomes, "names_handed_out": handed, "c_re_resolutions": cchecks}, limit=2)


def extra_stage(tier, seed, workdir):
    """Thorough tier: the repository's own 939 tests run with the monitor attached (pytest plugin pv.pytest_plugin)."""
    if tier != "thorough":
        return {}, []
    counters, reports, tail = common.suite_under_monitors("NS", workdir)
    counters["suite.ran"] = 1
    viol = [{"idx": -2, "what": "NS monitor while the repository's test-suite ran (%s): %s" % ((w[1] or {}).get("context"), w[0]),
             "payload": {"workload": "repository test-suite under monitors", "pytest": tail}, "witness": w[1]} for w in reports[:5]]
    return counters, viol


def run_case(ctx, idx):
    if not hasattr(ctx, "shapes"):
        ctx.shapes = set()
    judge(ctx, idx, make_case(ctx, idx))


def replay(ctx, rec):
    ctx.shapes = set()
    judge(ctx, rec["idx"], rec["payload"])


def finish_worker(ctx):  # noqa: F811
    common.finish(ctx)
    ctx.extra["distinct_sets"] = {"history_shapes": sorted(getattr(ctx, "shapes", set()))}


def floors(counters, tier, extra):
    out = []
    need = 200 if tier == "quick" else 2000
    for k in ("mon.NS.a_checks", "mon.NS.b_checks", "mon.NS.c_checks"):
        if counters.get(k, 0) < 1000:
            out.append("deciding monitor clause %s evaluated only %d times" % (k, counters.get(k, 0)))
    for path in ("qn-default", "qn-default->dn", "qn-renamed", "qn-same-prefix", "str-bare", "str-prefix", "str-renamed-prefix",
                 "str-uri-compaction"):
        if counters.get("mon.NS.path." + path, 0) < need // 4:
            out.append("resolution path %s produced only %d names" % (path, counters.get("mon.NS.path." + path, 0)))
    if counters.get("api_boundary.answers", 0) < need:
        out.append("answers of the containers' own valid_qualified_name judged only %d times" % counters.get("api_boundary.answers", 0))
    if counters.get("mon.NS.renamed_on_add", 0) < need:
        out.append("prefix clashes (renamed on add) seen only %d times" % counters.get("mon.NS.renamed_on_add", 0))
    if counters.get("mon.NS.monitor_errors", 0):
        out.append("the NS monitor itself raised %d times" % counters["mon.NS.monitor_errors"])
    if counters.get("churn.kept_name_asked_of_a_fresh_document", 0) < need * 20:
        out.append("names kept from dead documents were asked of fresh documents only %d times" % counters.get("churn.kept_name_asked_of_a_fresh_document", 0))
    if counters.get("op.dns.ok", 0) < need // 4 or counters.get("op.bundle.ok", 0) < need // 4:
        out.append("too few default-namespace settings or bundles in the histories")
    if tier == "thorough" and counters.get("suite.NS.c_checks", 0) < 1000:
        out.append("the monitor observed the repository's test-suite only %d times" % counters.get("suite.NS.c_checks", 0))
    out.extend(common.cov_floor(extra))
    return out


TECHNIQUE = "runtime monitoring: online trace-invariant monitor on NamespaceManager hooks over generated namespace histories"
LEVEL_TEXT = ("Exploration by runtime monitoring: an online monitor hooked on add_namespace / set_default_namespace / "
              "valid_qualified_name of every scope re-evaluates clauses (a),(b),(c) after every operation of tens of thousands of "
              "generated namespace histories (document + bundles, clashing and generated-looking prefixes, equal URIs under several "
              "prefixes, URIs that are prefixes of each other, names as QualifiedName/'p:l'/bare/full URI) and of full API programs "
              "followed by exports; for those programs clause (c) is also evaluated over every name the records hold (identifiers, attribute "
              "names, qualified-name values, literal datatypes), whether or not it ever passed through the hooked methods. Churn cases ask fresh documents for names that dead documents handed out. The clauses are self-referential invariants of the trace, so no model of the renaming tables is "
              "needed and a correct implementation that picks other prefixes cannot be flagged.")
LEVEL_NOTE = ("Trusted: the monitor's own bookkeeping and the detached-copy probe. Histories are bounded (<= 40 operations, <= 4 scopes) "
              "and obey the quantifier's usage discipline; an unbounded 'always' is not decided, only the observed histories.")
DESIGN_REF = "DESIGN.md section 5 (NS) and section 6, C03"
