"""C04 -- document equality is an equivalence that coincides with content equivalence.

Oracle: content_equivalent(a, b) computed from strict snapshots (same bundle URIs; per bundle the same *set* of
records by kind, identifier URI, attribute URI and value), with Python's own value equality folded in (1/True/1.0,
aware datetimes by instant) because the statement excludes those from what == can tell apart.  Every comparison is
made in both argument orders, with !=, on documents, on bundle pairs and on record pairs (with hash).
"""
import copy
import os
import random
import subprocess
import tempfile

from pv import env, gen, monitors, rebuild, routes, strict, interp
from pv.checks import common
from pv.runner import case_rng

import prov.model as pm

ID = "C04"
LEVEL = "exploration"
ANCHORS = ["prov.model:ProvRecord.__eq__", "prov.model:ProvRecord.__hash__", "prov.model:ProvBundle.__eq__", "prov.model:ProvDocument.__eq__",
           "prov.identifier:Identifier.__eq__", "prov.identifier:Identifier.__hash__", "prov.identifier:QualifiedName.__hash__",
           "prov.model:Literal.__eq__", "prov.model:Literal.__hash__", "prov.identifier:Namespace.__eq__", "prov.identifier:Namespace.__hash__"]
PRESERVING = ["permute", "reprefix", "duplicate", "rebuild_from_records", "json_roundtrip", "identity", "add_record_copies"]
EDITS = ["alter_value", "add_value", "remove_value", "alter_formal", "alter_id", "toggle_id", "remove_record", "add_record",
         "add_empty_bundle", "remove_bundle", "move_record", "swap_kind", "rename_bundle", "value_kind"]
PROVNS = monitors.PROVNS
SWAPS = [("Generation", "Usage", "Invalidation"), ("Entity", "Agent"), ("Specialization", "Mention"), ("Start_", "End_")]


def plan(tier, seed):
    return {
        "cases": 5000 if tier == "quick" else 60000,
        "hashseeds": [0] if tier == "quick" else [0, 1, 2, 3],
        "timeout_s": 400 if tier == "quick" else 3400,
        "rule": "case = a c01 document d + 2 content-preserving variants + 3 single content-changing edits + 1 independent document; every "
                "pair (and the triple d, v1, v2) is compared with ==, != in both orders on documents, on bundles and on sampled record pairs "
                "(with hash). distinct = canonical hash; non-trivial = d has >= 1 record and >= 1 edited variant was judged",
        "assumptions": [
            "values that Python itself compares equal (1 / True / 1.0, -0.0 / 0.0, aware datetimes of the same instant) are folded together in "
            "the oracle, as the statement excludes them; pairs on which that folding matters are counted (numeric_folding_mattered)",
            "variants are rebuilt through the public API from snapshot data under fresh prefixes",
        ],
    }


def setup_worker(ctx):
    common.setup(ctx, ANCHORS)


def finish_worker(ctx):
    common.finish(ctx)


def make_case(ctx, idx):
    r = case_rng(ctx.seed, ID, idx)
    return {"ops": gen.Gen(r, gen.profile("c01", p_repeat_id=0.15)).program(),
            "other": gen.Gen(r, gen.profile("c01", max_steps=4)).program(),
            "preserving": r.sample(PRESERVING, 2), "edits": r.sample(EDITS, 3), "seed": r.randint(0, 2 ** 30)}


# ---- oracle ---------------------------------------------------------------------------------------
def content(doc):
    out = {}
    for b, c in strict.strict(doc).items():
        out[b] = frozenset(strict.collapse_rec_key(k) for k in c)
    return out


def strict_sets(doc):
    return {b: frozenset(strict.setlike_key(k) for k in c) for b, c in strict.strict(doc).items()}


# ---- variants (on snapshot data) ---------------------------------------------------------------------
def variant_preserving(kind, od, doc, r):
    if kind == "identity":
        return rebuild.from_ordered(od, "i")
    if kind == "permute":
        od2 = [(b, r.sample(keys, len(keys))) for b, keys in od]
        head, tail = od2[:1], od2[1:]
        r.shuffle(tail)
        return rebuild.from_ordered(head + tail, "p")
    if kind == "reprefix":
        return rebuild.from_ordered(od, "zq")
    if kind == "duplicate":
        od2 = []
        for b, keys in od:
            keys = list(keys)
            if keys:
                keys.insert(r.randint(0, len(keys)), r.choice(keys))
            od2.append((b, keys))
        return rebuild.from_ordered(od2, "d")
    if kind == "rebuild_from_records":
        nd = pm.ProvDocument(records=doc.get_records())
        for b in doc.bundles:
            nb = nd.bundle(b.identifier)
            nb.update(b)
        return nd
    if kind == "json_roundtrip":
        return pm.ProvDocument.deserialize(content=doc.serialize(format="json"), format="json")
    if kind == "add_record_copies":
        # repeated identical records added to the *same live objects' document* (duplicates are content preserving)
        nd = pm.ProvDocument(records=doc.get_records())
        for rec in doc.get_records()[:3]:
            nd.add_record(rec)
        for b in doc.bundles:
            nb = nd.bundle(b.identifier)
            nb.update(b)
            for rec in b.get_records()[:2]:
                nb.add_record(rec)
        return nd
    raise AssertionError(kind)


def _edit_attrs(rk, fn):
    t, i, attrs = rk
    pairs = [(a, v) for (a, v), n in attrs for _ in range(n)]
    pairs = fn(pairs)
    if pairs is None:
        return None
    from pv import models
    return models.mk_key(t, i, pairs)


def variant_edit(kind, od, r):
    """Returns an edited deep copy of the ordered snapshot, or None if the edit does not apply."""
    od = [(b, list(keys)) for b, keys in od]
    places = [(bi, ri) for bi, (_b, keys) in enumerate(od) for ri in range(len(keys))]
    if kind == "add_empty_bundle":
        od.append(("http://ex.org/bundles/extra%d" % r.randint(0, 9), []))
        return od
    if kind == "remove_bundle":
        if len(od) < 2:
            return None
        del od[r.randint(1, len(od) - 1)]
        return od
    if kind == "rename_bundle":
        if len(od) < 2:
            return None
        bi = r.randint(1, len(od) - 1)
        od[bi] = (od[bi][0] + "x", od[bi][1])
        return od
    if kind == "add_record":
        bi = r.randrange(len(od))
        od[bi][1].append((PROVNS + "Entity", "http://ex.org/added%d" % r.randint(0, 99), ()))
        return od
    if not places:
        return None
    bi, ri = r.choice(places)
    keys = od[bi][1]
    rk = keys[ri]
    t, i, attrs = rk
    if kind == "remove_record":
        del keys[ri]
        return od
    if kind == "move_record":
        if len(od) < 2:
            return None
        bj = r.choice([j for j in range(len(od)) if j != bi])
        od[bj][1].append(keys.pop(ri))
        return od
    if kind == "alter_id":
        if i is None:
            return None
        keys[ri] = (t, i + "x", attrs)
        return od
    if kind == "toggle_id":
        if t.split("#")[1] in gen.ELEMENTS:
            return None
        keys[ri] = (t, None if i is not None else "http://ex.org/newid", attrs)
        return od
    if kind == "swap_kind":
        name = t.split("#")[1]
        for grp in SWAPS:
            if name in grp:
                others = [g for g in grp if g != name and not g.endswith("_")]
                if not others:
                    return None
                formal_names = {a for (a, _v), _n in attrs if a in monitors.FORMAL}
                new = r.choice(others)
                allowed = {PROVNS + f for f in gen.KINDS[new][1]}
                if not formal_names <= allowed:
                    return None
                if new in gen.ELEMENTS and i is None:
                    return None
                keys[ri] = (PROVNS + new, i, attrs)
                return od
        return None

    def pick(pairs, pred):
        idxs = [k for k, (a, v) in enumerate(pairs) if pred(a, v)]
        return r.choice(idxs) if idxs else None

    if kind == "add_value":
        new = _edit_attrs(rk, lambda ps: ps + [("http://ex.org/addedattr", ("str", "added%d" % r.randint(0, 9)))])
    elif kind == "remove_value":
        def rm(ps):
            k = pick(ps, lambda a, v: True)
            if k is None:
                return None
            return ps[:k] + ps[k + 1:]
        new = _edit_attrs(rk, rm)
    elif kind == "alter_value":
        def alt(ps):
            k = pick(ps, lambda a, v: a not in monitors.FORMAL)
            if k is None:
                return None
            a, v = ps[k]
            return ps[:k] + [(a, _altered(v, r))] + ps[k + 1:]
        new = _edit_attrs(rk, alt)
    elif kind == "value_kind":
        def vk(ps):
            k = pick(ps, lambda a, v: a not in monitors.FORMAL and v[0] in ("str", "uri", "qn", "lit"))
            if k is None:
                return None
            a, v = ps[k]
            return ps[:k] + [(a, _other_kind(v))] + ps[k + 1:]
        new = _edit_attrs(rk, vk)
    elif kind == "alter_formal":
        def af(ps):
            k = pick(ps, lambda a, v: a in monitors.FORMAL)
            if k is None:
                return None
            a, v = ps[k]
            if v[0] == "qn":
                return ps[:k] + [(a, ("qn", v[1] + "x"))] + ps[k + 1:]
            if v[0] == "dt":
                y = int(v[1][:4])
                return ps[:k] + [(a, ("dt", "%04d%s" % (y + 1 if y < 9999 else y - 1, v[1][4:]), v[2]))] + ps[k + 1:]
            return None
        new = _edit_attrs(rk, af)
    else:
        raise AssertionError(kind)
    if new is None or new == rk:
        return None
    keys[ri] = new
    return od


def _altered(v, r):
    k = v[0]
    if k == "str":
        return ("str", v[1] + "~")
    if k == "int":
        return ("int", v[1] + 7)
    if k == "float":
        f = float(v[1])
        return ("float", repr(f * 2 + 3.5))
    if k == "bool":
        return ("str", "changed")
    if k == "dt":
        y = int(v[1][:4])
        return ("dt", "%04d%s" % (y + 1 if y < 9999 else y - 1, v[1][4:]), v[2])
    if k in ("qn", "uri"):
        return (k, v[1] + "x")
    if k == "lit":
        return r.choice([("lit", v[1] + "~", v[2], v[3]), ("lit", v[1], v[2], "de" if v[3] else None) if v[3] else ("lit", v[1], v[2] + "x", None)])
    return ("str", "changed")


def _other_kind(v):
    k = v[0]
    if k == "str":
        return ("uri", v[1] or "urn:empty")
    if k == "uri":
        return ("str", v[1])
    if k == "qn":
        return ("uri", v[1])
    if k == "lit":
        return ("str", v[1])
    return v


# ---- judging ------------------------------------------------------------------------------------------
def compare(ctx, label, a, b, problems, expect_label=None):
    """All clauses for one pair of documents."""
    ca, cb = content(a), content(b)
    equiv = ca == cb
    if equiv != (strict_sets(a) == strict_sets(b)):
        ctx.count("numeric_folding_mattered")
    try:
        ab, ba = (a == b), (b == a)
        nab, nba = (a != b), (b != a)
    except Exception as e:
        problems.append({"pair": label, "problem": "comparison raised %s: %s" % (type(e).__name__, str(e)[:150])})
        return equiv
    ctx.count("doc_pairs.%s.%s" % (label.split(":")[0], "equal" if equiv else "different"), 2)
    if ab != ba:
        problems.append({"pair": label, "problem": "a==b is %s but b==a is %s" % (ab, ba), "content_equivalent": equiv})
    if nab == ab or nba == ba:
        problems.append({"pair": label, "problem": "!= does not negate == (a==b %s, a!=b %s, b==a %s, b!=a %s)" % (ab, nab, ba, nba)})
    if ab != equiv or ba != equiv:
        d = strict.diff(strict.strict(a), strict.strict(b), 4)
        problems.append({"pair": label, "problem": "a==b is %s, b==a is %s, but the contents are %s" % (ab, ba, "equivalent" if equiv else "different"),
                         "diff": d})
    # bundles pairwise
    ba_, bb_ = {x.identifier.uri: x for x in a.bundles}, {x.identifier.uri: x for x in b.bundles}
    for u in list(ba_)[:3]:
        for u2 in list(bb_)[:3]:
            x, y = ba_[u], bb_[u2]
            eq = frozenset(strict.collapse_rec_key(k) for k in strict.snap_bundle(x)) == frozenset(strict.collapse_rec_key(k) for k in strict.snap_bundle(y))
            ctx.count("bundle_pairs", 2)
            try:
                xy, yx = (x == y), (y == x)
                if xy != yx or xy != eq or (x != y) == xy:
                    problems.append({"pair": label, "problem": "bundles <%s>,<%s>: x==y %s, y==x %s, x!=y %s, record sets %s" % (u, u2, xy, yx, x != y, "equal" if eq else "different")})
            except Exception as e:
                problems.append({"pair": label, "problem": "bundle comparison raised %s" % type(e).__name__})
    return equiv


def compare_records(ctx, a, b, r, problems):
    ra = a.get_records() + [x for bb in a.bundles for x in bb.get_records()]
    rb = b.get_records() + [x for bb in b.bundles for x in bb.get_records()]
    if not ra or not rb:
        return
    ka = {id(x): strict.collapse_rec_key(strict.rec_key(x)) for x in ra}
    kb = {id(x): strict.collapse_rec_key(strict.rec_key(x)) for x in rb}
    pairs = []
    for x in r.sample(ra, min(4, len(ra))):
        same = [y for y in rb if kb[id(y)] == ka[id(x)]]
        pairs.append((x, r.choice(same) if same else r.choice(rb)))
        pairs.append((x, r.choice(rb)))
        pairs.append((x, x))
    for x, y in pairs:
        eq = (ka.get(id(x)) or kb.get(id(x))) == (kb.get(id(y)) or ka.get(id(y)))
        ctx.count("record_pairs.%s" % ("equal" if eq else "different"), 2)
        try:
            xy, yx = (x == y), (y == x)
            if xy != yx:
                problems.append({"problem": "records: x==y %s but y==x %s" % (xy, yx), "x": str(x), "y": str(y)})
            elif xy != eq:
                problems.append({"problem": "records: x==y is %s but their contents are %s" % (xy, "equal" if eq else "different"), "x": str(x), "y": str(y)})
            if (x != y) == xy:
                problems.append({"problem": "records: != does not negate ==", "x": str(x), "y": str(y)})
            if xy and hash(x) != hash(y):
                problems.append({"problem": "equal records with different hashes", "x": str(x), "y": str(y)})
            ctx.count("record_hash_checked")
        except Exception as e:
            problems.append({"problem": "record comparison raised %s: %s" % (type(e).__name__, str(e)[:100])})
    # comparisons with foreign objects never raise and are False
    for x in ra[:1]:
        for o in (None, 1, "s", a):
            try:
                if x == o or not (x != o):
                    problems.append({"problem": "record == %r" % (o,)})
            except Exception as e:
                problems.append({"problem": "record == %r raised %s" % (o, type(e).__name__)})


def judge(ctx, idx, case):
    ctx.hub.context = {"check": ID, "idx": idx}
    r = random.Random(case["seed"])
    d = interp.run(case["ops"]).doc
    other = interp.run(case["other"]).doc
    od = strict.ordered(d)
    problems = []
    judged_edit = 0
    variants = []
    compare(ctx, "self", d, d, problems)
    # the same program built a second time while ==, != and hash() are used on the growing document ("unaffected by the path
    # by which a document was built"): comparisons are observations, they must not leave anything behind (e.g. a stale cache)
    observe = interp.make_observer(random.Random(case["seed"] + 1), p=0.6)
    watched = interp.run(case["ops"], observe).doc
    eq = compare(ctx, "preserving.observed_build", d, watched, problems)
    ctx.count("variant.observed_build.%s" % ("equivalent" if eq else "NOT-equivalent"))
    compare_records(ctx, d, watched, r, problems)
    try:
        dup = rebuild.from_ordered([(b, keys + keys[:2]) for b, keys in strict.ordered(watched)], "w")
        # a document holding repeated copies is compared through sets of records: stale hashes would show here
        compare(ctx, "preserving.observed_build_vs_duplicates", watched, dup, problems)
    except pm.ProvException:
        pass
    # "unaffected by the path by which a document was built": the same statements through other entry points of the API
    # (convenience method / factory / new_record, alias, keyword arguments, dict-form attributes, a formal argument stated as an
    # attribute).  The twin must be content-equivalent *and* ==.
    first = interp.run(case["ops"])
    for n in range(2):
        tops, changed = routes.route_twin(case["ops"], r)
        tw = interp.run(tops, style_xor=r.choice([0, 1, 2, 4, 7]), prog=first.prog)
        if [o.split(":")[0] for o in tw.outcomes] != [o.split(":")[0] for o in first.outcomes]:
            ctx.count("route_twin.not_comparable(outcomes differ)")
            continue
        for c in changed:
            ctx.count("route_twin.%s" % c)
        ctx.count("route_twin.judged")
        eq = compare(ctx, "preserving.route_twin", d, tw.doc, problems)
        if not eq:
            problems.append({"pair": "preserving.route_twin", "problem": "the same statements made through another route of the API (%s) build different content"
                             % ", ".join(sorted(set(changed))), "diff": strict.diff(strict.strict(d), strict.strict(tw.doc), 4)})
        compare_records(ctx, d, tw.doc, r, problems)
    if idx % 40 == 7:
        # ... and the same program run by another interpreter process (another string-hash seed), handed over by pickle
        there = common.build_elsewhere(case["ops"])
        if there is not None:
            d_fresh = interp.run(case["ops"], use_pool=False).doc     # what this process builds from the same calls without its own history
            eq = compare(ctx, "preserving.built_in_another_process", d_fresh, there.doc, problems)
            ctx.count("variant.built_in_another_process.%s" % ("equivalent" if eq else "NOT-equivalent"))
            if not eq:
                problems.append({"pair": "preserving.built_in_another_process", "problem": "the same program run in another process and unpickled here "
                                 "gives a document that is not content-equivalent", "diff": strict.diff(strict.strict(d_fresh), strict.strict(there.doc), 4)})
            compare_records(ctx, d_fresh, there.doc, r, problems)
    for kind in case["preserving"]:
        try:
            v = variant_preserving(kind, od, d, r)
        except pm.ProvException:
            ctx.count("variant.%s.refused" % kind)
            continue
        except Exception as e:
            ctx.count("variant.%s.raised.%s" % (kind, type(e).__name__))
            continue
        eq = compare(ctx, "preserving.%s" % kind, d, v, problems)
        ctx.count("variant.%s.%s" % (kind, "equivalent" if eq else "NOT-equivalent"))
        if not eq:
            # the quantifier lists these transformations as content preserving: a variant that is not equivalent is a violation
            # (== then rightly says "different", which is why compare() alone stays silent)
            def rejudge(c, kind=kind):
                d2 = interp.run(c["ops"]).doc
                v2 = variant_preserving(kind, strict.ordered(d2), d2, random.Random(c["seed"]))
                return [] if content(d2) == content(v2) else ["still different"]
            from pv import findings
            fid = findings.attribute(ID, case, rejudge) if kind == "json_roundtrip" else None
            if fid:
                ctx.known_finding(fid, "d != d after a PROV-JSON round trip", {"idx": idx})
            else:
                problems.append({"pair": "preserving.%s" % kind, "problem": "the content-preserving transformation '%s' gives a document that is not "
                                 "content-equivalent to d (and == says so)" % kind, "diff": strict.diff(strict.strict(d), strict.strict(v), 4)})
        variants.append(v)
        compare_records(ctx, d, v, r, problems)
    if len(variants) == 2:
        # transitivity on a triple
        a, b, c = d, variants[0], variants[1]
        try:
            if (a == b) and (b == c) and not (a == c):
                problems.append({"pair": "triple", "problem": "a==b and b==c but not a==c"})
            ctx.count("triples")
        except Exception:
            pass
    for kind in case["edits"]:
        ed = variant_edit(kind, od, r)
        if ed is None:
            ctx.count("edit.%s.not_applicable" % kind)
            continue
        try:
            v = rebuild.from_ordered(ed, "e")
        except pm.ProvException:
            ctx.count("edit.%s.refused" % kind)
            continue
        except Exception as e:
            ctx.count("edit.%s.raised.%s" % (kind, type(e).__name__))
            continue
        eq = compare(ctx, "edit.%s" % kind, d, v, problems)
        ctx.count("edit.%s.%s" % (kind, "equivalent(!)" if eq else "different"))
        judged_edit += 1
        compare_records(ctx, d, v, r, problems)
    compare(ctx, "independent", d, other, problems)
    if ctx.tier == "thorough" and idx % 40 == 0 and variants:
        prov_compare(ctx, d, variants[0], r, problems)
    common.drain_monitors(ctx, idx, case)
    if problems:
        ctx.violation(idx, "equality: %s" % str(problems[0].get("problem"))[:300], case, {"problems": problems[:4]})
    if common.nontrivial(d) and judged_edit:
        ctx.hashes.add(gen.case_hash(case))
        ctx.sample({"program": case["ops"], "preserving": case["preserving"], "edits": case["edits"]}, limit=2)


def prov_compare(ctx, a, b, r, problems):
    """scripts/prov-compare exit status == the relation (0 equal, 1 different)."""
    script = os.path.join(env.REPO, "scripts", "prov-compare")
    if not os.path.exists(script):
        ctx.count("prov_compare.missing")
        return
    tmp = tempfile.mkdtemp(prefix="pvcmp", dir=os.environ.get("TMPDIR"))
    try:
        fa, fb = os.path.join(tmp, "a.json"), os.path.join(tmp, "b.json")
        ta, tb = a.serialize(format="json"), b.serialize(format="json")
        # the files are only a transport: whether PROV-JSON carries a document faithfully is C01's claim (open finding KF-C01-1);
        # a document the transport does not carry is not put to prov-compare
        for doc_, text in ((a, ta), (b, tb)):
            if content(pm.ProvDocument.deserialize(content=text, format="json")) != content(doc_):
                ctx.count("prov_compare.skipped_transport_not_faithful")
                return
        with open(fa, "w") as f:
            f.write(ta)
        with open(fb, "w") as f:
            f.write(tb)
        e = dict(os.environ)
        e["PYTHONPATH"] = env.PROV_SRC
        for x, y in ((fa, fb), (fb, fa)):
            p = subprocess.run([env.PYTHON, script, x, y], env=e, capture_output=True, timeout=120)
            want = 0 if content(a) == content(b) else 1
            ctx.count("prov_compare.runs")
            if p.returncode != want:
                problems.append({"problem": "prov-compare exit status %s, contents are %s" % (p.returncode, "equivalent" if want == 0 else "different"),
                                 "stderr": p.stderr.decode(errors="replace")[-300:]})
    finally:
        import shutil
        shutil.rmtree(tmp, ignore_errors=True)


def run_case(ctx, idx):
    judge(ctx, idx, make_case(ctx, idx))


def replay(ctx, rec):
    judge(ctx, rec["idx"], rec["payload"])


def floors(counters, tier, extra):
    out = []
    need = 100 if tier == "quick" else 1000
    for k in PRESERVING:
        if counters.get("variant.%s.equivalent" % k, 0) < need:
            out.append("preserving transform %s judged only %d times" % (k, counters.get("variant.%s.equivalent" % k, 0)))
    for k in EDITS:
        if counters.get("edit.%s.different" % k, 0) < need // 2:
            out.append("edit %s judged only %d times" % (k, counters.get("edit.%s.different" % k, 0)))
    for k in ("record_pairs.equal", "record_pairs.different", "record_hash_checked", "bundle_pairs", "triples"):
        if counters.get(k, 0) < need:
            out.append("%s only %d" % (k, counters.get(k, 0)))
    if tier == "thorough" and counters.get("prov_compare.runs", 0) < 100:
        out.append("prov-compare ran only %d times" % counters.get("prov_compare.runs", 0))
    out.extend(common.cov_floor(extra))
    return out


TECHNIQUE = "runtime monitoring: ==/!=/hash observed on generated pairs and triples against a snapshot-level content-equivalence oracle"
LEVEL_TEXT = ("Exploration by runtime observation: for generated documents, content-preserving variants (permutation, re-prefixing, duplicates, "
              "rebuild from records, JSON round trip) and single content-changing edits (value, value kind, formal argument, identifier, "
              "identifier<->none, record, bundle, bundle member, record kind) are built through the public API; ==, != and hash are observed "
              "in both argument orders on documents, bundles and record pairs and compared with content equivalence computed from strict "
              "snapshots; transitivity on triples; route twins (the same program with every record stated through another entry point of the "
              "API: convenience method / factory / new_record, alias, keyword arguments, dict-form attributes, a formal argument stated as an "
              "attribute) must be content-equivalent and ==; prov-compare's exit status in the thorough tier.")
LEVEL_NOTE = "Trusted: the snapshot-level content-equivalence relation (Python value equality folded in as the statement says); bounded documents."
DESIGN_REF = "DESIGN.md section 6, C04"
