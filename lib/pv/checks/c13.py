"""C13 -- exporting never mutates the document and is repeatable.

Deciding monitor: PURE (pv.monitors) takes ordered content + namespace view of the whole document before and after
every call of serialize (json/xml/rdf/provn, all options), get_provn, prov_to_dot, prov_to_graph, document/bundle ==,
unified, flattened -- wherever such a call happens.  This driver issues those calls in random orders and repetitions
and additionally checks record-level == / != / hash purity and text repeatability (same call twice; two documents built
by the same program in the same process), RDF by graph isomorphism.
"""
import io
import random

from pv import gen, monitors, strict, interp
from pv.checks import common
from pv.runner import case_rng

import prov.model as pm

ID = "C13"
LEVEL = "exploration"
ANCHORS = ["prov.serializers.provxml:ProvXMLSerializer.serialize_bundle", "prov.serializers.provxml:ProvXMLSerializer._derive_record_label",
           "prov.dot:prov_to_dot", "prov.graph:prov_to_graph", "prov.serializers.provjson:encode_json_container",
           "prov.model:sorted_attributes", "prov.model:ProvBundle.get_provn", "prov.model:ProvRecord.get_provn",
           "prov.model:ProvBundle._unified_records", "prov.model:ProvDocument.flattened", "prov.model:ProvRecord.copy",
           "prov.serializers.provrdf:ProvRDFSerializer.encode_container"]
EXPORTS = ["json", "json_opts", "xml", "xml_force", "provn", "get_provn", "rdf", "dot", "dot_opts", "graph", "eq_self", "eq_other",
           "eq_foreign", "unified", "flattened", "bundle_unified", "record_ops"]


def plan(tier, seed):
    return {
        "cases": 5000 if tier == "quick" else 60000,
        "hashseeds": [0] if tier == "quick" else [0, 1, 2, 3],
        "timeout_s": 400 if tier == "quick" else 3400,
        "rule": "case = a c02-profile program (so that every exporter accepts most documents) + a random sequence of 4..9 export/"
                "comparison/derivation calls with random options, each guarded by the PURE monitor; text exports are repeated and also "
                "compared with the export of a second document built by the same program. distinct = canonical hash of (program, call "
                "sequence); non-trivial = >= 1 record and >= 1 PURE evaluation",
        "assumptions": [
            "repeatability is claimed within one process (same PYTHONHASHSEED); the thorough tier repeats the workload under several hash seeds",
            "an exporter that raises (document not expressible in that format) must still leave the document unchanged; the raise itself is "
            "judged by the property of that format, not here",
            "RDF repeatability is graph isomorphism (rdflib.compare), sampled because it is slow",
        ],
    }


def setup_worker(ctx):
    common.setup(ctx, ANCHORS)


def finish_worker(ctx):
    common.finish(ctx)


def make_case(ctx, idx):
    r = case_rng(ctx.seed, ID, idx)
    ops = gen.Gen(r, gen.profile("c02", p_repeat_id=0.35)).program()
    calls = [r.choice(EXPORTS) for _ in range(r.randint(4, 9))]
    return {"ops": ops, "calls": calls, "seed": r.randint(0, 2 ** 30)}


def do_export(doc, call, r, other=None, foreign=None):
    """Returns text (or None).  Exceptions propagate to the caller."""
    if call == "json":
        return doc.serialize(format="json")
    if call == "json_opts":
        return doc.serialize(format="json", indent=r.choice([None, 0, 2]), sort_keys=r.random() < 0.5, ensure_ascii=r.random() < 0.5)
    if call == "xml":
        return doc.serialize(format="xml")
    if call == "xml_force":
        return doc.serialize(format="xml", force_types=True)
    if call == "provn":
        return doc.serialize(format="provn")
    if call == "get_provn":
        return doc.get_provn()
    if call == "rdf":
        return ("rdf", doc.serialize(format="rdf"))
    if call in ("dot", "dot_opts"):
        from prov.dot import prov_to_dot
        kw = {}
        if call == "dot_opts":
            kw = dict(show_nary=r.random() < 0.5, use_labels=r.random() < 0.5, show_element_attributes=r.random() < 0.5,
                      show_relation_attributes=r.random() < 0.5, direction=r.choice(["BT", "TB", "LR", "RL", "XX"]))
        prov_to_dot(doc, **kw)
        return None
    if call == "graph":
        from prov.graph import prov_to_graph
        prov_to_graph(doc)
        return None
    if call == "eq_self":
        doc == doc
        doc != doc
        return None
    if call == "eq_other":
        if other is not None:
            doc == other
            other == doc
            doc != other
        return None
    if call == "eq_foreign":
        # same shape, every namespace different: comparing must not teach either side the other's names
        for x, y in ((doc, foreign), (foreign, doc)):
            x == y
            x != y
            for bx in list(x.bundles)[:2]:
                for by in list(y.bundles)[:2]:
                    bx == by
        return None
    if call == "unified":
        doc.unified()
        return None
    if call == "flattened":
        doc.flattened()
        return None
    if call == "bundle_unified":
        for b in list(doc.bundles):
            b.unified()
            b == b
        return None
    raise AssertionError(call)


def record_ops(ctx, doc, problems):
    """hash / == / != on records must not change anything."""
    before = monitors.pure_snapshot(doc)
    recs = doc.get_records() + [x for b in doc.bundles for x in b.get_records()]
    for i, a in enumerate(recs[:12]):
        try:
            hash(a)
            a == a
            for b in recs[i + 1:i + 4]:
                a == b
                a != b
                hash(b)
            str(a)
            repr(a)
            ctx.count("record_ops")
        except Exception as e:
            ctx.count("record_ops.raised.%s" % type(e).__name__)
    msgs = monitors.pure_compare(before, monitors.pure_snapshot(doc))
    if msgs:
        problems.append({"call": "record hash/==/!=/str", "changes": msgs})


def judge(ctx, idx, case):
    hub = ctx.hub
    hub.context = {"check": ID, "idx": idx}
    r = random.Random(case["seed"])
    # three quarters of the documents are built while accessors / printing / ==, hash / look-ups observe them; one quarter is built
    # without any observation, so that the first export of the call sequence is really the first time the library prints these values
    # (anything the library remembers between exports is then cold for the first call and warm for the second)
    observed = case["seed"] % 4 != 0
    st = common.build(case["ops"], observed=observed)
    doc = st.doc
    ctx.count("observations_during_construction", getattr(st, "observations", 0))
    ctx.count("builds.%s" % ("observed" if observed else "unobserved"))
    # the twin is built by exactly the same calls (including the same read-only observations: an accessor such as
    # record.label touches the attribute table's key order, which PROV-N prints, so "the same calls" has to include them)
    twin = common.build(case["ops"], observed=observed).doc
    problems = []
    ev0 = hub.counts["PURE.evaluations"]
    foreign = None
    if "eq_foreign" in case["calls"]:
        import json
        foreign = interp.run(json.loads(json.dumps(case["ops"]).replace("http://", "http://alt.").replace("urn:x:", "urn:alt:"))).doc
    for call in case["calls"]:
        rs = r.getstate()
        if call == "record_ops":
            record_ops(ctx, doc, problems)
            continue
        if call == "eq_foreign":
            b_doc, b_for = monitors.pure_snapshot(doc), monitors.pure_snapshot(foreign)
            try:
                do_export(doc, call, r, twin, foreign)
                ctx.count("call.eq_foreign.ok")
            except Exception as e:
                ctx.count("call.eq_foreign.raised.%s" % type(e).__name__)
            for who, x, b in (("left operand", doc, b_doc), ("right operand", foreign, b_for)):
                msgs = monitors.pure_compare(b, monitors.pure_snapshot(x))
                if msgs:
                    problems.append({"call": "== / != with a document of other namespaces", "changed": who, "changes": msgs})
            continue
        try:
            t1 = do_export(doc, call, r, twin)
            ctx.count("call.%s.ok" % call)
        except Exception as e:
            ctx.count("call.%s.raised.%s" % (call, type(e).__name__))
            continue
        if t1 is None:
            continue
        # repeatability: same call again, and on the twin document
        r.setstate(rs)
        try:
            t2 = do_export(doc, call, r, twin)
            r.setstate(rs)
            t3 = do_export(twin, call, r, doc)
        except Exception as e:
            problems.append({"call": call, "repeat_raised": "%s: %s" % (type(e).__name__, str(e)[:150])})
            continue
        if isinstance(t1, tuple):
            if r.random() < 0.15:
                ctx.count("rdf_isomorphism_checks")
                import rdflib
                from rdflib.compare import isomorphic
                gs = []
                for t in (t1[1], t2[1], t3[1]):
                    g = rdflib.ConjunctiveGraph()
                    g.parse(data=t, format="trig")
                    gs.append(g)
                same = all(_iso(gs[0], g) for g in gs[1:])
                if not same:
                    problems.append({"call": call, "not_isomorphic": True, "first": t1[1][:1500], "other": t3[1][:1500]})
            continue
        ctx.count("text_pairs_compared", 2)
        if t1 != t2:
            problems.append({"call": call, "differs": "second call on the same document", "first": t1[:1500], "second": t2[:1500]})
        elif t1 != t3:
            problems.append({"call": call, "differs": "document built by the same program", "first": t1[:1500], "second": t3[:1500]})
    if not problems and idx % 2 == 0:
        # observation is pure also over *histories*: a document that was looked at and exported half-way through its construction
        # must, once complete, export the same content in every format as a twin that nobody looked at (content, not text: an
        # accessor may touch the key order of the attribute table)
        from pv.readers import provjson as jr, provxml as xr, provn as nr
        plain = interp.run(case["ops"]).doc
        for fmt, rd in (("json", jr), ("xml", xr), ("provn", nr)):
            try:
                t_obs, t_plain = doc.serialize(format=fmt), plain.serialize(format=fmt)
            except Exception:
                ctx.count("history_purity.%s.export_raised" % fmt)
                continue
            try:
                a, b = rd.read(t_obs)[0], rd.read(t_plain)[0]
            except Exception:
                ctx.count("history_purity.%s.unreadable" % fmt)
                continue
            ctx.count("history_purity.%s.compared" % fmt)
            if a != b:
                problems.append({"call": "serialize(%s) of a document observed during construction vs an unobserved twin" % fmt,
                                 "differs": "content read back by the independent reader", "diff": strict.jsonable(strict.diff(b, a, 4))})
                break
    if not problems and idx % 20 == 3:
        # "two documents built by the same calls": one of them in a fresh interpreter process (before anything there has exported or
        # read a document), handed over by pickle; text may differ across processes (set iteration order), what it denotes may not
        from pv.readers import provjson as jr2, provxml as xr2, provn as nr2
        there = common.build_elsewhere(case["ops"])
        if there is not None:
            here = interp.run(case["ops"], use_pool=False).doc
            for fmt, rd in (("json", jr2), ("xml", xr2), ("provn", nr2)):
                try:
                    a, b = rd.read(there.doc.serialize(format=fmt))[0], rd.read(here.serialize(format=fmt))[0]
                except Exception:
                    ctx.count("fresh_process_twin.%s.not_comparable" % fmt)
                    continue
                ctx.count("fresh_process_twin.%s.compared" % fmt)
                if a != b:
                    problems.append({"call": "serialize(%s) of a twin built by the same calls in a fresh interpreter process" % fmt,
                                     "differs": "content read back by the independent reader", "diff": strict.jsonable(strict.diff(b, a, 4))})
                    break
    reports = [(what, wit) for mon, what, wit in hub.drain() if mon == "PURE"]
    if reports:
        ctx.violation(idx, "PURE monitor: %s" % reports[0][0][:300], case, {"reports": [{"what": w, "witness": x} for w, x in reports[:5]]})
    elif problems:
        ctx.violation(idx, "export is not repeatable / not pure: %s" % str({k: v for k, v in problems[0].items() if k not in ("first", "second", "other")})[:300],
                      case, {"problems": problems[:3]})
    if common.nontrivial(doc) and hub.counts["PURE.evaluations"] > ev0:
        ctx.hashes.add(gen.case_hash(case))
        ctx.sample({"program": case["ops"], "calls": case["calls"]}, limit=2)


def _iso(g1, g2):
    from rdflib.compare import isomorphic
    c1 = {str(c.identifier): c for c in g1.contexts()}
    c2 = {str(c.identifier): c for c in g2.contexts()}
    named1 = {k for k, c in c1.items() if not isinstance(c.identifier, __import__("rdflib").BNode)}
    named2 = {k for k, c in c2.items() if not isinstance(c.identifier, __import__("rdflib").BNode)}
    if named1 != named2:
        return False
    for k in named1:
        if not isomorphic(c1[k], c2[k]):
            return False
    import rdflib
    d1, d2 = rdflib.Graph(), rdflib.Graph()
    for k, c in c1.items():
        if k not in named1:
            for t in c:
                d1.add(t)
    for k, c in c2.items():
        if k not in named2:
            for t in c:
                d2.add(t)
    return isomorphic(d1, d2)


def extra_stage(tier, seed, workdir):
    """Thorough tier: the repository's own 939 tests run with the monitor attached (pytest plugin pv.pytest_plugin)."""
    if tier != "thorough":
        return {}, []
    counters, reports, tail = common.suite_under_monitors("PURE", workdir)
    counters["suite.ran"] = 1
    viol = [{"idx": -2, "what": "PURE monitor while the repository's test-suite ran (%s): %s" % ((w[1] or {}).get("context"), w[0]),
             "payload": {"workload": "repository test-suite under monitors", "pytest": tail}, "witness": w[1]} for w in reports[:5]]
    return counters, viol


def run_case(ctx, idx):
    judge(ctx, idx, make_case(ctx, idx))


def replay(ctx, rec):
    judge(ctx, rec["idx"], rec["payload"])


def floors(counters, tier, extra):
    out = []
    need = 100 if tier == "quick" else 1000
    if counters.get("mon.PURE.evaluations", 0) < 5000:
        out.append("PURE evaluated only %d times" % counters.get("mon.PURE.evaluations", 0))
    for w in ("serialize.json", "serialize.xml", "serialize.rdf", "serialize.provn", "get_provn", "prov_to_dot", "prov_to_graph",
              "ProvDocument.__eq__", "ProvBundle.__eq__", "ProvDocument.unified", "ProvBundle.unified", "flattened"):
        if counters.get("mon.PURE.at." + w, 0) < need:
            out.append("PURE at %s evaluated only %d times" % (w, counters.get("mon.PURE.at." + w, 0)))
    for k in ("text_pairs_compared", "record_ops", "call.eq_foreign.ok", "rdf_isomorphism_checks", "history_purity.json.compared", "history_purity.xml.compared",
              "history_purity.provn.compared", "observations_during_construction"):
        if counters.get(k, 0) < need // 4:
            out.append("%s only %d" % (k, counters.get(k, 0)))
    for c in ("json", "xml", "xml_force", "provn", "rdf", "dot", "dot_opts", "graph"):
        if counters.get("call.%s.ok" % c, 0) < need:
            out.append("exporter %s succeeded only %d times" % (c, counters.get("call.%s.ok" % c, 0)))
    if tier == "thorough" and counters.get("suite.PURE.evaluations", 0) < 1000:
        out.append("the monitor observed the repository's test-suite only %d times" % counters.get("suite.PURE.evaluations", 0))
    out.extend(common.cov_floor(extra))
    return out


TECHNIQUE = "runtime monitoring: before/after state monitor (PURE) around every exporter/comparison/derivation call + repeatability comparison"
LEVEL_TEXT = ("Exploration by runtime monitoring: the PURE monitor snapshots ordered content, registered namespaces and default namespaces of the "
              "whole document before and after every call of every exporter (json/xml/rdf/provn with options, get_provn, DOT, graph), of ==/!=, "
              "of unified() and flattened(), in random orders and repetitions on generated documents; record-level hash/==/!=/str purity and the "
              "repeatability of text exports (same call twice; twin document built by the same program; RDF by isomorphism) are checked by the driver."
              " A quarter of the documents is built unobserved (the first export is then really the first), == / != is also run against a same-shaped document of other namespaces with snapshots of both operands, the PURE snapshot includes the ownership of bundles, and a twin built in a fresh interpreter process is compared by content.")
LEVEL_NOTE = ("Trusted: the snapshot functions (read internal tables directly, never call library comparisons), rdflib.compare for RDF isomorphism. "
              "Within-process determinism only; bounded documents.")
DESIGN_REF = "DESIGN.md section 5 (PURE) and section 6, C13"
