"""C05 -- records stay in normal form: formal attributes single-valued, typed, normalised.

Two oracles on the same executions:
  * monitor NF (invariant at hook): evaluated at the exit of every record mutator (__init__, add_attributes,
    add_asserted_type, set_time), also when the mutator raises;
  * a lock-step shadow model in this driver that predicts, pair by pair, accept / no-op / refuse(ProvException)
    for every value of every call from the model's current state, and the stored Python value of every
    non-formal attribute (typed literal of a natively supported datatype == the native value).
A second workload runs c01 API programs, corpus files and exports under NF only.
"""
import datetime
import glob
import os

from pv import env, gen, monitors, strict, interp
from pv.checks import common
from pv.runner import case_rng

import prov.model as pm
from prov.constants import PROV, XSD
from prov.identifier import Identifier, Namespace

ID = "C05"
LEVEL = "exploration"
ANCHORS = [
    "prov.model:ProvRecord.add_attributes", "prov.model:ProvRecord._auto_literal_conversion", "prov.model:parse_xsd_types",
    "prov.model:_ensure_datetime", "prov.model:ProvActivity.set_time", "prov.model:ProvRecord.add_asserted_type",
    "prov.model:parse_xsd_datetime", "prov.model:parse_boolean", "prov.model:ProvBundle.new_record",
]
U = {"ex": "http://ex.org/", "ex2": "http://ex.org/sub/", "o": "urn:x:"}
U_BUNDLE = {"ex": "http://bundle.example/ex/", "ex2": "http://ex.org/sub/", "o": "urn:x:"}   # the bundle re-binds 'ex' 
DEFAULT = "http://default.org/"
PROVNS = monitors.PROVNS
LOCALS = ["e1", "e2", "a1", "a2", "ag1", "ag2", "x"]
NATIVE = {
    "int": (["5", "-17", "0", "+3"], lambda s: int(s)),
    "long": (["1099511627776", "-1"], lambda s: int(s)),
    "double": (["1.5", "2.0", "1e10", "-0.25", "3"], lambda s: float(s)),
    "boolean": (["true", "false", "1", "0"], lambda s: s in ("true", "1")),
    "string": (["abc", "", "line\nbreak", "5", "  lead", "trail  ", " ", "\tx\n", "a  b"], lambda s: s),
    "anyURI": (["http://x.org/y", "urn:a:b"], lambda s: ("uri", s)),
    "dateTime": (["2012-03-04T05:06:07", "2012-03-04T05:06:07.500000", "2012-03-04T05:06:07+01:00", "2012-03-04T05:06:07Z"],
                 lambda s: datetime.datetime.fromisoformat(s.replace("Z", "+00:00"))),
}


def plan(tier, seed):
    return {
        "cases": 30000 if tier == "quick" else 600000,
        "hashseeds": [0] if tier == "quick" else [0, 1, 2, 3],
        "timeout_s": 300 if tier == "quick" else 3000,
        "rule": "case = (85%) a lock-step scenario: one record of a random kind created through new_record / typed factory / element "
                "convenience method with every formal argument in a random accepted representation, followed by 1..6 mutator calls "
                "(add_attributes dict|list, set_time, add_asserted_type) re-adding equal values in other representations, adding "
                "conflicting values, and adding non-formal values incl. Literal(lex, xsd:T) vs native; or (15%) a c01 program / corpus "
                "file load under the NF monitor. distinct = canonical hash of the scenario; non-trivial = >= 1 mutator call judged "
                "against the model (or >= 1 NF evaluation for the program workload)",
        "assumptions": [
            "not claimed (quantifier): a single call that contains prov:collection and itself supplies >= 2 distinct values for a "
            "formal attribute; that attribute stays exempt on that record",
            "set_time() is a setter: it replaces the stored time (normal form is still required of the result)",
            "time values that denote the same instant with different UTC offsets are not generated as 'different' values",
            "literals of native datatypes are generated with valid lexical forms only",
        ],
    }


def setup_worker(ctx):
    common.setup(ctx, ANCHORS)
    base = os.path.join(env.PROV_SRC, "prov", "tests")
    ctx.corpus = sorted(glob.glob(os.path.join(base, "json", "*.json")) + glob.glob(os.path.join(base, "xml", "*.xml")))


def finish_worker(ctx):
    common.finish(ctx)


# ---- scenario generation -----------------------------------------------------------------------
def rand_ref(r):
    """A reference target (prefix, local) and a representation of it."""
    if r.random() < 0.15:
        return {"ns": "", "local": r.choice(LOCALS)}
    return {"ns": r.choice(sorted(U)), "local": r.choice(LOCALS)}


CUR = {"map": U}


def ref_uri(ref):
    return (DEFAULT if ref["ns"] == "" else CUR["map"][ref["ns"]]) + ref["local"]


def rand_rep(r, ref):
    reps = ["qn", "qn_other_prefix", "qn_other_object", "str", "uri"]
    if ref["ns"] == "":
        reps = ["bare", "qn_default", "uri", "qn_other_prefix"]
    return r.choice(reps)


def rand_time(r):
    base = datetime.datetime(r.randint(1990, 2030), r.randint(1, 12), r.randint(1, 28), r.randint(0, 23), r.randint(0, 59), r.randint(0, 59),
                             r.choice([0, 0, 250000]))
    tz = r.choice([None, None, 0, 60, -330])
    return {"iso": base.isoformat(), "tz": tz, "as": r.choice(["dt", "iso", "iso_z"])}


def rand_plain_value(r):
    k = r.choice(["str", "int", "float", "bool", "dt", "uri", "qn", "lang", "foreign", "native_lit", "native_lit", "native_py"])
    if k == "str":
        return {"k": "str", "v": r.choice(["a", "b", "", "x y", "5"])}
    if k == "int":
        return {"k": "int", "v": r.choice([2, 3, 40, -6, 2 ** 65])}
    if k == "float":
        return {"k": "float", "v": r.choice([2.5, -7.25, 1e100, 0.1])}
    if k == "bool":
        return {"k": "bool", "v": r.random() < 0.5}
    if k == "dt":
        t = rand_time(r)
        t["k"] = "dt"
        t["as"] = "dt"
        return t
    if k == "uri":
        return {"k": "uri", "v": r.choice(["http://x.org/y", "urn:a:b"])}
    if k == "qn":
        return {"k": "qn", "ref": rand_ref(r), "rep": r.choice(["qn", "qn_other_prefix"])}
    if k == "lang":
        return {"k": "lang", "v": r.choice(["hi", "été"]), "lang": r.choice(["en", "fr"])}
    if k == "foreign":
        if r.random() < 0.4:
            return {"k": "custom_lit", "v": r.choice(["12.5", "x y", ""]), "dtns": r.choice(sorted(U)), "dt": r.choice(["cm", "T1"])}
        return {"k": "lit", "v": r.choice(["7", "1.50"]), "dt": r.choice(["short", "decimal", "gYear"])}
    t = r.choice(sorted(NATIVE))
    lex = r.choice(NATIVE[t][0])
    if k == "native_lit":
        return {"k": "native_lit", "t": t, "lex": lex}
    return {"k": "native_py", "t": t, "lex": lex}


def make_scenario(r):
    kind = r.choice(list(gen.KINDS))
    formals = gen.KINDS[kind][1]
    is_elem = kind in gen.ELEMENTS
    in_bundle = r.random() < 0.3
    path = r.choice(["new_record_dict", "new_record_list", "factory", "conv"])
    if path == "conv" and kind not in gen.CONVENIENCE:
        path = "factory"
    if path == "factory" and kind in gen.NO_ID_FACTORY and r.random() < 0.5:
        path = "new_record_list"
    ident = rand_ref(r) if (is_elem or r.random() < 0.6) else None
    if path in ("conv",) or (path == "factory" and kind in gen.NO_ID_FACTORY):
        ident = None
    create = {}
    for i, f in enumerate(formals):
        if f in gen.TIME_ATTRS:
            if r.random() < 0.5:
                create[f] = rand_time(r)
        elif i == 0 or r.random() < 0.7:
            ref = rand_ref(r)
            create[f] = {"ref": ref, "rep": rand_rep(r, ref)}
    extras = []
    if not (path == "factory" and kind in gen.NO_ID_FACTORY) and not (path == "conv" and kind in gen.NO_ID_FACTORY):
        for _ in range(r.randint(0, 2)):
            extras.append([r.choice(["prov:type", "prov:label", "ex:tag", "prov:value", "prov:role", "ex2:n"]), rand_plain_value(r)])
    if extras is not None and not (path == "factory" and kind in gen.NO_ID_FACTORY) and not (path == "conv" and kind in gen.NO_ID_FACTORY) and r.random() < 0.15:
        # a tie inside the creating call: an application attribute whose value is a plain string spelt exactly like one of the
        # formal arguments of the same call (a name given as 'ex:e1', a time given as ISO text)
        cands = [f for f in create if (f in gen.TIME_ATTRS) or create[f]["ref"]["ns"] != ""]
        if cands:
            f = r.choice(cands)
            if f in gen.TIME_ATTRS:
                create[f]["as"] = "iso"
                tie = {"k": "tie_time", "t": dict(create[f])}
            else:
                create[f]["rep"] = "str"
                tie = {"k": "tie_ref", "ref": create[f]["ref"]}
            extras.insert(r.randint(0, len(extras)), [r.choice(["ex:tag", "prov:value", "ex2:n"]), tie])
    calls = []
    for _ in range(r.randint(1, 6)):
        x = r.random()
        if kind == "Activity" and x < 0.2:
            calls.append({"m": "set_time", "start": rand_time(r) if r.random() < 0.7 else None, "end": rand_time(r) if r.random() < 0.5 else None})
        elif x < 0.3:
            calls.append({"m": "add_asserted_type", "v": rand_plain_value(r)})
        else:
            pairs = []
            for _ in range(r.randint(1, 3)):
                y = r.random()
                if formals and y < 0.6:
                    f = r.choice(formals)
                    if f in gen.TIME_ATTRS:
                        if f in create and r.random() < 0.5:
                            v = dict(create[f])
                            v["as"] = r.choice(["dt", "iso", "iso_z"])   # same value, other representation
                        elif f in create and r.random() < 0.2:
                            # the same wall-clock reading, once without and once with a UTC offset (that of the process's own time
                            # zone among them): two different values, as datetime's own comparison has it
                            v = dict(create[f])
                            v["tz"] = r.choice([0, 60]) if v["tz"] is None else None
                            v["as"] = r.choice(["dt", "iso"])
                        else:
                            v = rand_time(r)
                        pairs.append(["prov:" + f, {"time": v}, r.choice(["qn", "str"])])
                    else:
                        if f in create and r.random() < 0.5:
                            ref = create[f]["ref"]                      # same value, other representation
                        else:
                            ref = rand_ref(r)
                        pairs.append(["prov:" + f, {"ref": ref, "rep": rand_rep(r, ref)}, r.choice(["qn", "str"])])
                elif y < 0.65 and kind != "Membership":
                    # a formal attribute of another kind is still a PROV formal attribute: single-valued everywhere
                    f = r.choice(["entity", "activity", "agent", "time"])
                    if f == "time":
                        pairs.append(["prov:time", {"time": rand_time(r)}, "qn"])
                    else:
                        ref = rand_ref(r)
                        pairs.append(["prov:" + f, {"ref": ref, "rep": rand_rep(r, ref)}, "qn"])
                else:
                    pairs.append([r.choice(["prov:type", "prov:label", "ex:tag", "prov:value", "ex2:n", "prov:location"]), {"val": rand_plain_value(r)}, r.choice(["qn", "str"])])
            if r.random() < 0.15:
                # the same tie inside one add_attributes call, before or after the formal pair
                forms = [p_ for p_ in pairs if p_[0].startswith("prov:") and (("time" in p_[1]) or ("ref" in p_[1] and p_[1]["ref"]["ns"] != ""))]
                if forms:
                    fp = r.choice(forms)
                    if "time" in fp[1]:
                        fp[1]["time"]["as"] = "iso"
                        tie = {"k": "tie_time", "t": dict(fp[1]["time"])}
                    else:
                        fp[1]["rep"] = "str"
                        tie = {"k": "tie_ref", "ref": fp[1]["ref"]}
                    pairs.insert(r.randint(0, len(pairs)), [r.choice(["ex:tag", "ex2:n"]), {"val": tie}, r.choice(["qn", "str"])])
            calls.append({"m": "add_attributes", "form": r.choice(["dict", "list"]), "pairs": pairs})
    # less-travelled forms of the creating call: other_attributes as a dict, attribute names as strings, the PROV-DM alias of the
    # factory (wasGeneratedBy for generation ...), keyword arguments, and the subtype factories (revision / quotation /
    # primary_source / collection) which add their own prov:type next to the caller's
    style = {"extras_form": r.choice(["list", "list", "dict"]), "extras_names": r.choice(["qn", "qn", "str"]),
             "alias": r.random() < 0.4, "kwargs": r.random() < 0.3, "subtype": None}
    if path == "factory" and kind in ("Derivation", "Entity") and r.random() < 0.7:
        style["subtype"] = r.choice(["revision", "quotation", "primary_source"]) if kind == "Derivation" else "collection"
        if r.random() < 0.6 and not any(n == "prov:type" for n, _v in extras):
            extras.append(["prov:type", rand_plain_value(r)])   # the caller's own type next to the factory's
    return {"mode": "scenario", "kind": kind, "in_bundle": in_bundle, "path": path, "ident": ident, "create": create, "extras": extras, "calls": calls,
            "style": style}


def make_case(ctx, idx):
    r = case_rng(ctx.seed, ID, idx)
    x = r.random()
    if x < 0.85:
        return make_scenario(r)
    if x < 0.95 or not ctx.corpus:
        return {"mode": "program", "ops": gen.Gen(r, gen.profile("c01")).program()}
    return {"mode": "corpus", "file": os.path.relpath(r.choice(ctx.corpus), env.PROV_SRC)}


# ---- the shadow model -----------------------------------------------------------------------------
class Model:
    def __init__(self):
        self.formal = {}        # attr uri -> ('qn', uri) | datetime
        self.other = {}         # attr uri -> python set with library set semantics over model values
        self.exempt = set()

    def snapshot(self):
        out = {}
        for a, v in self.formal.items():
            out.setdefault(a, set()).add(("qn", v[1]) if isinstance(v, tuple) else strict.vkey(v))
        for a, vs in self.other.items():
            for v in vs:
                out.setdefault(a, set()).add(v if isinstance(v, tuple) else strict.vkey(v))
        return {a: vs for a, vs in out.items() if vs}


def rec_snapshot(rec, exempt):
    out = {}
    for a, vs in rec._attributes.items():
        if a.uri in exempt:
            continue
        for v in vs:
            out.setdefault(a.uri, set()).add(strict.vkey(v))
    return out


def attr_uri(name):
    p, l = name.split(":")
    return (PROVNS if p == "prov" else CUR["map"][p]) + l


class Driver:
    def __init__(self, case):
        self.case = case
        self.doc = pm.ProvDocument()
        self.doc.set_default_namespace(DEFAULT)
        for p, u in U.items():
            self.doc.add_namespace(p, u)
        CUR["map"] = U
        if case["in_bundle"]:
            # the same strings are resolved at document level first (warms anything that might be shared between scopes) ...
            self.doc.entity("ex:e1")
            self.doc.entity("ex:a1", {"ex:tag": "doc-level"})
            self.scope = self.doc.bundle("o:bundle1")
            # ... and the bundle binds 'ex' to another namespace: every spelling below must denote the bundle's URI
            self.scope.add_namespace("ex", U_BUNDLE["ex"])
            CUR["map"] = U_BUNDLE
        else:
            self.scope = self.doc
        self.ns = {p: Namespace(p, u) for p, u in CUR["map"].items()}
        self.elem_cache = {}

    # representations -------------------------------------------------------------------------
    def name(self, ref, rep):
        uri_ns = DEFAULT if ref["ns"] == "" else CUR["map"][ref["ns"]]
        l = ref["local"]
        if rep == "qn" and ref["ns"] == "":
            rep = "qn_default"
        if rep == "qn":
            return self.ns[ref["ns"]][l]
        if rep == "qn_other_object":
            return Namespace(ref["ns"], uri_ns)[l]
        if rep == "qn_other_prefix":
            return Namespace("zz9", uri_ns)[l]
        if rep == "qn_default":
            return Namespace("", DEFAULT)[l]
        if rep == "str":
            return "%s:%s" % (ref["ns"], l)
        if rep == "bare":
            return l
        if rep == "uri":
            return uri_ns + l
        raise AssertionError(rep)

    def attr_name(self, name, form):
        if form == "str":
            return name
        p, l = name.split(":")
        return PROV[l] if p == "prov" else self.ns[p][l]

    def time_value(self, t):
        dt = datetime.datetime.fromisoformat(t["iso"])
        if t["tz"] is not None:
            dt = dt.replace(tzinfo=datetime.timezone(datetime.timedelta(minutes=t["tz"])))
        how = t.get("as", "dt")
        if how == "dt":
            if dt.tzinfo is not None and dt.second % 3 == 0:
                # an instance of a datetime subclass (pandas.Timestamp, pendulum ...) is the datetime it is
                return interp.AwareDT(dt.year, dt.month, dt.day, dt.hour, dt.minute, dt.second, dt.microsecond, dt.tzinfo), dt
            return dt, dt
        s = dt.isoformat()
        if how == "iso_z" and t["tz"] == 0:
            s = s.replace("+00:00", "Z")
        return s, dt

    def plain(self, v):
        """(library value, model value)"""
        k = v["k"]
        if k in ("str", "int", "float", "bool"):
            return v["v"], v["v"]
        if k == "tie_ref":
            # a plain string that reads exactly like the spelling of a formal argument of the same call: it stays a string
            text = "%s:%s" % (v["ref"]["ns"], v["ref"]["local"])
            return text, text
        if k == "tie_time":
            text, _dt = self.time_value(v["t"])
            return text, text
        if k == "dt":
            _lib, dt = self.time_value(v)
            return dt, dt
        if k == "uri":
            return Identifier(v["v"]), ("uri", v["v"])
        if k == "qn":
            return self.name(v["ref"], v["rep"]), ("qn", ref_uri(v["ref"]))
        if k == "lang":
            return pm.Literal(v["v"], langtag=v["lang"]), ("lit", v["v"], PROVNS + "InternationalizedString", v["lang"])
        if k == "lit":
            return pm.Literal(v["v"], XSD[v["dt"]]), ("lit", v["v"], monitors.XSDNS + v["dt"], None)
        if k == "custom_lit":
            # a user-defined datatype, given under a foreign prefix object: it is re-homed in the scope, its value must survive
            return (pm.Literal(v["v"], Namespace("units", CUR["map"][v["dtns"]])[v["dt"]]),
                    ("lit", v["v"], CUR["map"][v["dtns"]] + v["dt"], None))
        native = NATIVE[v["t"]][1](v["lex"])
        if k == "native_lit":
            return pm.Literal(v["lex"], XSD[v["t"]]), native
        lib = Identifier(native[1]) if isinstance(native, tuple) else native
        return lib, native


def same_time(a, b):
    if (a.tzinfo is None) != (b.tzinfo is None):
        return False
    return a == b


def apply_pairs(model, pairs, exempt_attrs):
    """Sequential, non-atomic application as the statement allows. pairs: (attr uri, kind, model value).
    Returns 'ok' or 'refuse'."""
    for au, kind, mv in pairs:
        if mv is None:
            continue
        if au in monitors.FORMAL:
            if au in exempt_attrs:
                continue
            cur = model.formal.get(au)
            if cur is None:
                model.formal[au] = mv
            else:
                same = (cur[1] == mv[1]) if isinstance(mv, tuple) else same_time(cur, mv)
                if not same:
                    return "refuse"
        else:
            model.other.setdefault(au, set()).add(mv)
    return "ok"


def call_exemption(pairs):
    byattr = {}
    for au, kind, mv in pairs:
        if mv is not None:
            byattr.setdefault(au, set()).add(mv if isinstance(mv, tuple) else strict.vkey(mv))
    if PROVNS + "collection" not in byattr:
        return set()
    return {au for au, vs in byattr.items() if au in monitors.FORMAL and len(vs) >= 2}


def model_pair(d, name, spec):
    au = attr_uri(name)
    if "time" in spec:
        lib, dt = d.time_value(spec["time"])
        return au, lib, dt
    if "ref" in spec:
        return au, d.name(spec["ref"], spec["rep"]), ("qn", ref_uri(spec["ref"]))
    lib, mv = d.plain(spec["val"])
    if au in monitors.TIME_ATTRS or au in monitors.REF_ATTRS:
        return au, None, None
    return au, lib, mv


def run_scenario(ctx, case):
    """Returns (problems, ncalls_judged)."""
    d = Driver(case)
    kind = case["kind"]
    formals = gen.KINDS[kind][1]
    model = Model()
    problems = []
    # ---- creation
    lib_formal, mpairs = {}, []
    for f in formals:
        if f in case["create"]:
            spec = case["create"][f]
            if f in gen.TIME_ATTRS:
                lib, dt = d.time_value(spec)
                lib_formal[f] = lib
                mpairs.append((PROVNS + f, "time", dt))
            else:
                lib_formal[f] = d.name(spec["ref"], spec["rep"])
                mpairs.append((PROVNS + f, "ref", ("qn", ref_uri(spec["ref"]))))
    lib_extras = []
    style = case.get("style") or {"extras_form": "list", "extras_names": "qn", "alias": False, "kwargs": False, "subtype": None}
    for name, v in case["extras"]:
        lib, mv = d.plain(v)
        lib_extras.append((d.attr_name(name, style["extras_names"]), lib))
        mpairs.append((attr_uri(name), "val", mv))
    if style["extras_form"] == "dict" and len({n for n, _v in case["extras"]}) == len(case["extras"]):
        lib_extras = dict(lib_extras)
        ctx.count("creation.extras_as_dict")
    if style["subtype"] and case["path"] == "factory":
        sub_t = {"revision": "Revision", "quotation": "Quotation", "primary_source": "PrimarySource", "collection": "Collection"}[style["subtype"]]
        mpairs.append((PROVNS + "type", "val", ("qn", PROVNS + sub_t)))
    ident = d.name(case["ident"], "qn" if case["ident"]["ns"] else "bare") if case["ident"] else None
    path = case["path"]
    receiver_uri = None
    try:
        if path == "conv":
            cls, meth = gen.CONVENIENCE[kind]
            rid = lib_formal.get(formals[0])
            if rid is None:
                return [], 0
            recv = getattr(d.scope, {"Entity": "entity", "Activity": "activity", "Agent": "agent"}[cls])(rid)
            n0 = len(d.scope._records)
            pos = [lib_formal.get(f) for f in formals[1:]]
            if kind in gen.NO_ID_FACTORY:
                getattr(recv, meth)(pos[0])
            else:
                getattr(recv, meth)(*pos, attributes=lib_extras)
            rec = d.scope._records[-1] if len(d.scope._records) == n0 + 1 else None
            if rec is None:
                problems.append("convenience method %s created %d records" % (meth, len(d.scope._records) - n0))
                return problems, 0
        elif path == "factory":
            fname = style["subtype"] or gen.KINDS[kind][0]
            if style["alias"] and fname in interp.ALIASES:
                fname = interp.ALIASES[fname]
                ctx.count("creation.alias_method")
            fac = getattr(d.scope, fname)
            pos = [lib_formal.get(f) for f in formals]
            if style["subtype"]:
                ctx.count("creation.subtype_factory.%s" % style["subtype"])
            if style["kwargs"]:
                ctx.count("creation.keyword_arguments")
            if kind in ("Entity", "Agent"):
                rec = fac(identifier=ident, other_attributes=lib_extras) if style["kwargs"] else fac(ident, lib_extras)
            elif kind == "Activity":
                rec = fac(identifier=ident, other_attributes=lib_extras, endTime=pos[1], startTime=pos[0]) if style["kwargs"] \
                    else fac(ident, pos[0], pos[1], lib_extras)
            elif kind in gen.NO_ID_FACTORY:
                rec = fac(**dict(zip(formals, pos))) if style["kwargs"] else fac(*pos)
            elif style["kwargs"]:
                rec = fac(identifier=ident, other_attributes=lib_extras, **dict(zip(formals, pos)))
            else:
                rec = fac(*pos, identifier=ident, other_attributes=lib_extras)
        else:
            fa = [(PROV[f], v) for f, v in lib_formal.items()]
            if path == "new_record_dict":
                fa = dict(fa)
            rec = d.scope.new_record(PROV[kind], ident, fa, lib_extras)
        created = "ok"
    except pm.ProvException as e:
        created = "refuse"
        rec = None
    except Exception as e:
        return ["creation raised %s (not a ProvException): %s" % (type(e).__name__, str(e)[:150])], 0
    ex = call_exemption(mpairs)
    if ex:
        # not claimed by the property: a creating call that lists several values next to prov:collection.
        # Neither outcome is judged and the scenario ends here (the NF monitor keeps its own, identical exemption).
        ctx.count("not_judged.multi_valued_creation_with_prov:collection")
        return problems, 0
    expect = apply_pairs(model, mpairs, ex)
    if is_missing_required(kind, ident):
        expect = "refuse"
    if created != expect:
        problems.append("creation via %s: library %s, model %s" % (path, created, expect))
        return problems, 1
    if rec is None:
        return problems, 1
    got, want = rec_snapshot(rec, model.exempt), {a: v for a, v in model.snapshot().items() if a not in model.exempt}
    if got != want:
        problems.append({"after": "creation via " + path, "record": strict.jsonable(sorted(got.items())), "model": strict.jsonable(sorted(want.items()))})
        return problems, 1
    ctx.count("created.%s.%s" % (kind, path))
    judged = 1
    # ---- mutator calls; the record may be *read* in between (accessors, printing, hashing): reading is not a call of the
    # statement and must not change what the next call does
    import zlib
    for ci, call in enumerate(case["calls"]):
        if zlib.crc32(repr((case["kind"], ci, len(case["calls"]))).encode()) % 2 == 0:
            try:
                rec.args, rec.formal_attributes, rec.extra_attributes, rec.attributes
                rec.get_attribute(PROV["type"]), rec.get_attribute("prov:location"), rec.label, rec.value, rec.get_asserted_types()
                repr(rec), rec.get_provn(), hash(rec), rec == rec
                if hasattr(rec, "get_startTime"):
                    rec.get_startTime(), rec.get_endTime()
                ctx.count("reads_between_calls")
            except Exception as ex_:
                problems.append("reading the record raised %s: %s" % (type(ex_).__name__, str(ex_)[:120]))
                break
        m = call["m"]
        if m == "set_time":
            if not hasattr(rec, "set_time"):
                continue
            s = d.time_value(call["start"]) if call["start"] else (None, None)
            e = d.time_value(call["end"]) if call["end"] else (None, None)
            try:
                rec.set_time(s[0], e[0])
                outcome = "ok"
            except pm.ProvException:
                outcome = "refuse"
            except Exception as ex_:
                problems.append("set_time raised %s: %s" % (type(ex_).__name__, str(ex_)[:120]))
                break
            if s[1] is not None:
                model.formal[PROVNS + "startTime"] = s[1]
            if e[1] is not None:
                model.formal[PROVNS + "endTime"] = e[1]
            expect = "ok"
            ctx.count("call.set_time.%s" % ("str" if isinstance(s[0], str) or isinstance(e[0], str) else "dt"))
        elif m == "add_asserted_type":
            lib, mv = d.plain(call["v"])
            try:
                rec.add_asserted_type(lib)
                outcome = "ok"
            except pm.ProvException:
                outcome = "refuse"
            except Exception as ex_:
                problems.append("add_asserted_type raised %s: %s" % (type(ex_).__name__, str(ex_)[:120]))
                break
            model.other.setdefault(PROVNS + "type", set()).add(mv)
            expect = "ok"
            ctx.count("call.add_asserted_type.%s" % call["v"]["k"])
        else:
            libpairs, mpairs = [], []
            for name, spec, nform in call["pairs"]:
                au, lib, mv = model_pair(d, name, spec)
                if lib is None:
                    continue
                libpairs.append((d.attr_name(name, nform), lib))
                mpairs.append((au, "", mv))
            if call["form"] == "dict":
                dd, keep = {}, {}
                for (k, v), mp in zip(libpairs, mpairs):
                    hk = k if isinstance(k, str) else k
                    if hk in dd:
                        # dict semantics: a later pair with an equal key replaces the value, position stays
                        pass
                    dd[hk] = v
                    keep[hk] = mp
                arg = dd
                mpairs = [keep[k] for k in dd]
            else:
                arg = libpairs
            ex = call_exemption(mpairs)
            if ex:
                ctx.count("not_judged.multi_valued_call_with_prov:collection")
                break
            try:
                rec.add_attributes(arg)
                outcome = "ok"
            except pm.ProvException:
                outcome = "refuse"
            except Exception as ex_:
                problems.append("add_attributes raised %s (not a ProvException): %s" % (type(ex_).__name__, str(ex_)[:120]))
                break
            expect = apply_pairs(model, mpairs, set())
            ctx.count("call.add_attributes.%s.%s" % (call["form"], expect))
            for au, _k, mv in mpairs:
                if au in monitors.FORMAL:
                    ctx.count("formal_pair.%s" % ("ref" if au in monitors.REF_ATTRS else "time"))
        judged += 1
        if outcome != expect:
            problems.append({"call": call, "library": outcome, "model": expect})
            break
        got, want = rec_snapshot(rec, model.exempt), {a: v for a, v in model.snapshot().items() if a not in model.exempt}
        if got != want:
            problems.append({"after": call, "record": strict.jsonable(sorted(got.items())), "model": strict.jsonable(sorted(want.items()))})
            break
    if model.exempt:
        ctx.count("exempted_records")
    return problems, judged


def is_missing_required(kind, ident):
    return kind in gen.ELEMENTS and ident is None


def judge(ctx, idx, case):
    hub = ctx.hub
    hub.context = {"check": ID, "idx": idx}
    nf0 = hub.counts["NF.evaluations"]
    problems, judged = [], 0
    if case["mode"] == "scenario":
        problems, judged = run_scenario(ctx, case)
        ctx.count("scenario.kind.%s" % case["kind"])
        ctx.count("scenario.path.%s" % case["path"])
    elif case["mode"] == "program":
        st = common.build(case["ops"])
        if idx % 8 == 3:
            # the records of a document that was built by another interpreter process and arrived by pickle obey the same rules:
            # re-adding a formal value is a no-op, a second different value is refused
            there = common.build_elsewhere(case["ops"])
            if there is not None:
                import datetime as _dt
                recs = [x for c in [there.doc] + list(there.doc.bundles) for x in c._records][:12]
                for rec in recs:
                    for a, vs in list(rec._attributes.items()):
                        if a.uri not in monitors.FORMAL or len(vs) != 1 or rec.get_type().localpart == "Membership":
                            continue
                        v = next(iter(vs))
                        before = rec_snapshot(rec, set())
                        try:
                            rec.add_attributes([(a, v)])
                        except pm.ProvException:
                            problems.append("unpickled record: re-adding the value of %s it already has is refused" % a)
                            break
                        if rec_snapshot(rec, set()) != before:
                            problems.append("unpickled record: re-adding the value of %s it already has changed the record" % a)
                            break
                        other = (v + _dt.timedelta(days=1)) if isinstance(v, _dt.datetime) else pm.Namespace("elsewhere", "http://elsewhere.example/")["other"]
                        try:
                            rec.add_attributes([(a, other)])
                            problems.append("unpickled record: a second, different value of %s is accepted (%d values now)" % (a, len(rec._attributes[a])))
                            break
                        except pm.ProvException:
                            pass
                        ctx.count("unpickled_records.formal_attribute_rules_judged")
                st = there
        for fmt in ("json", "provn"):
            try:
                st.doc.serialize(format=fmt)
            except Exception:
                ctx.count("program.export_raised")
        try:
            st.doc.unified()
        except pm.ProvException:
            pass
        judged = 1
        ctx.count("program_cases")
    else:
        path = os.path.join(env.PROV_SRC, case["file"])
        try:
            pm.ProvDocument.deserialize(path, format="xml" if path.endswith(".xml") else "json")
            ctx.count("corpus.loaded")
        except Exception as e:
            ctx.count("corpus.load_raised.%s" % type(e).__name__)
        judged = 1
    if case["mode"] == "scenario" and not problems and idx % 4 == 0:
        # a long-lived document that keeps receiving *record objects* of short-lived documents as formal arguments: what it stores is
        # the qualified name of the record it was given -- whatever lived at that address before
        col = getattr(ctx, "collector", None)
        if col is None or len(col._records) > 1500:
            col = ctx.collector = pm.ProvDocument()
        short = pm.ProvDocument()
        ns = Namespace("sl", "http://short-lived.example/%d/" % idx)
        e1, e2 = short.entity(ns["generated"]), short.entity(ns["used-%d" % (idx % 7)])
        rel = col.derivation(e1, e2)
        got = {a.localpart: [v.uri for v in vs] for a, vs in rel._attributes.items() if a.uri.startswith(PROVNS) and vs}
        ctx.count("collector.record_objects_of_short_lived_documents")
        if got.get("generatedEntity") != [e1.identifier.uri] or got.get("usedEntity") != [e2.identifier.uri]:
            problems.append({"collector": "a relation given two record objects of a short-lived document stores %s, their identifiers are <%s> and <%s>"
                             % (got, e1.identifier.uri, e2.identifier.uri)})
        del short, e1, e2
    reports = [(what, wit) for mon, what, wit in hub.drain() if mon == "NF"]
    if problems:
        ctx.violation(idx, "record state or refusal differs from the normal-form model: %s" % str(problems[0])[:300], case, {"problems": problems})
    elif reports:
        ctx.violation(idx, "NF monitor: %s" % reports[0][0], case, {"reports": [{"what": w, "witness": x} for w, x in reports[:5]]})
    if judged and hub.counts["NF.evaluations"] > nf0:
        ctx.hashes.add(gen.case_hash(case))
        if case["mode"] == "scenario":
            ctx.sample(case, limit=2)


def extra_stage(tier, seed, workdir):
    """Thorough tier: the repository's own 939 tests run with the monitor attached (pytest plugin pv.pytest_plugin)."""
    if tier != "thorough":
        return {}, []
    counters, reports, tail = common.suite_under_monitors("NF", workdir)
    counters["suite.ran"] = 1
    viol = [{"idx": -2, "what": "NF monitor while the repository's test-suite ran (%s): %s" % ((w[1] or {}).get("context"), w[0]),
             "payload": {"workload": "repository test-suite under monitors", "pytest": tail}, "witness": w[1]} for w in reports[:5]]
    return counters, viol


def run_case(ctx, idx):
    judge(ctx, idx, make_case(ctx, idx))


def replay(ctx, rec):
    judge(ctx, rec["idx"], rec["payload"])


def floors(counters, tier, extra):
    out = []
    need = 100 if tier == "quick" else 1000
    if counters.get("mon.NF.evaluations", 0) < 10000:
        out.append("NF monitor evaluated only %d times" % counters.get("mon.NF.evaluations", 0))
    for w in ("__init__", "add_attributes", "add_asserted_type", "set_time"):
        if counters.get("mon.NF.at." + w, 0) < need:
            out.append("NF never/rarely evaluated at %s (%d)" % (w, counters.get("mon.NF.at." + w, 0)))
    for kind in gen.KINDS:
        if counters.get("scenario.kind." + kind, 0) < need:
            out.append("kind %s in only %d scenarios" % (kind, counters.get("scenario.kind." + kind, 0)))
    for k in ("call.add_attributes.dict.ok", "call.add_attributes.list.ok", "call.add_attributes.dict.refuse", "call.add_attributes.list.refuse",
              "call.set_time.str", "call.set_time.dt", "formal_pair.ref", "formal_pair.time", "call.add_asserted_type.native_lit",
              "program_cases", "corpus.loaded", "creation.alias_method", "creation.extras_as_dict", "creation.keyword_arguments",
              "creation.subtype_factory.revision", "creation.subtype_factory.quotation", "creation.subtype_factory.primary_source",
              "creation.subtype_factory.collection", "reads_between_calls"):
        if counters.get(k, 0) < need // 4:
            out.append("%s observed only %d times" % (k, counters.get(k, 0)))
    if tier == "thorough" and counters.get("suite.NF.evaluations", 0) < 1000:
        out.append("the monitor observed the repository's test-suite only %d times" % counters.get("suite.NF.evaluations", 0))
    out.extend(common.cov_floor(extra))
    return out


TECHNIQUE = "runtime monitoring: invariant-at-hook monitor (NF) on every record mutator + lock-step reference model of accept/no-op/refuse"
LEVEL_TEXT = ("Exploration by runtime monitoring: the NF monitor evaluates the normal-form invariant at the exit (also exceptional) of every "
              "record mutator in every execution, and a lock-step shadow model predicts accept / no-op / refuse(ProvException) and the stored "
              "Python value for every (attribute, value) of generated call sequences over all 18 kinds, all entry paths and all accepted "
              "representations (record object, QualifiedName under other prefixes/objects, 'p:l', bare, full URI; datetime / ISO string; "
              "Literal(lex, xsd:T) vs native). Also evaluated over API programs and the shipped corpus files."
              " Since rounds 4-8 the creating call also goes through subtype factories, alias methods, keyword arguments and dict-form attributes; records are read between calls; the rules are also judged on records of documents built in another process (pickle) and on a long-lived collector that receives record objects of short-lived documents. About 30% of the scenarios carry a tie: an application attribute whose value is a plain string spelt exactly like a formal argument of the same call, or a second time with the same wall-clock reading with / without a UTC offset.")
LEVEL_NOTE = ("Trusted: the shadow model (sequential, non-atomic application as the statement allows), our own table of PROV formal attributes "
              "and of the lexical spaces of the 7 native datatypes. The multi-member membership path is exempt exactly as the quantifier says.")
DESIGN_REF = "DESIGN.md section 5 (NF) and section 6, C05"
