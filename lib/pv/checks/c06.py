"""C06 -- PROV-N output is well-formed and denotes the same document.

Oracle: the independent PROV-N reader (pv.readers.provn: recursive-descent parser of the W3C grammar + own prefix
resolution).  A text the grammar rejects is a violation; otherwise the parsed document must equal the strict snapshot
of the source (bundles, identifiers, positional arguments incl. '-', attribute-value pairs with datatypes and language
tags, string and numeric values, URIs through the printed declarations).
"""
import io
import re

from pv import gen, strict, interp, findings
from pv.checks import common
from pv.readers import provn as provn_reader
from pv.readers.common import ReaderError
from pv.runner import case_rng

import prov.model as pm
from prov.identifier import Identifier, QualifiedName

ID = "C06"
LEVEL = "exploration"
ANCHORS = ["prov.model:ProvRecord.get_provn", "prov.model:ProvBundle.get_provn", "prov.model:encoding_provn_value",
           "prov.model:_ensure_multiline_string_triple_quoted", "prov.model:Literal.provn_representation",
           "prov.identifier:Identifier.provn_representation", "prov.identifier:QualifiedName.provn_representation",
           "prov.serializers.provn:ProvNSerializer.serialize"]
SAFE_LOCAL = re.compile(r"^[^\W]([\w\-./]*[\w\-/])?$", re.UNICODE)
NO_ATTRS = ("Specialization", "Alternate", "Mention", "Membership")
BOTH_MANDATORY = ("Communication", "Derivation", "Attribution", "Delegation", "Influence", "Specialization", "Alternate", "Mention", "Membership")


def plan(tier, seed):
    return {
        "cases": 12000 if tier == "quick" else 240000,
        "hashseeds": [0] if tier == "quick" else [0, 1, 2, 3],
        "timeout_s": 300 if tier == "quick" else 3000,
        "rule": "case = a c06-profile program (name local parts over letters/digits/_-./, strings without CR, alternate/specialization/"
                "mention/membership without identifier and attributes, grammar-mandatory arguments present); the post-build filter re-checks "
                "every clause on the built document and skips (counts) the rest. distinct = canonical program hash; non-trivial = >= 1 record "
                "and the text was parsed and compared",
        "assumptions": [
            "boundary forced by 'parses under the W3C PROV-N grammar': the productions of alternateOf/specializationOf/mentionOf/hadMember "
            "have neither identifier nor attributes, and the first argument (both for communication, derivation, attribution, delegation, "
            "influence) is mandatory; documents outside that are skipped and counted",
            "a bundle identifier that denotes different URIs in document scope and bundle scope is ambiguous in PROV-N: skipped and counted",
            "xsd:float/xsd:double literals are compared as the real number they denote, exactly",
        ],
    }


def setup_worker(ctx):
    common.setup(ctx, ANCHORS)
    common.ELSEWHERE["one_in"] = 60      # one document in sixty is built by another interpreter process and arrives by pickle


def finish_worker(ctx):
    common.finish(ctx)


def make_case(ctx, idx):
    r = case_rng(ctx.seed, ID, idx)
    return {"ops": gen.Gen(r, gen.profile("c06")).program()}


def _names_of(doc):
    for b in [doc] + list(doc.bundles):
        if b.identifier is not None:
            yield b.identifier
        for rec in b._records:
            if rec._identifier is not None:
                yield rec._identifier
            for a, vs in rec._attributes.items():
                yield a
                for v in vs:
                    if isinstance(v, QualifiedName):
                        yield v
                    elif isinstance(v, pm.Literal) and isinstance(v.datatype, QualifiedName):
                        yield v.datatype


def in_space(doc):
    """Post-build filter: every clause of the C06 quantifier / boundary, evaluated on the document itself."""
    for q in _names_of(doc):
        if not SAFE_LOCAL.match(q.localpart) or not all(ch.isalnum() or ch in "_-./" for ch in q.localpart):
            return "local part %r needs PROV-N escaping" % q.localpart
    for b in [doc] + list(doc.bundles):
        for rec in b._records:
            kind = rec.get_type().localpart
            formals = gen.KINDS[kind][1]
            present = {a.localpart for a, vs in rec._attributes.items() if vs and a.uri.startswith(strict_prov()) and a.localpart in formals}
            if kind in NO_ATTRS:
                if rec._identifier is not None:
                    return "%s with identifier has no PROV-N production" % kind
                if any(vs for a, vs in rec._attributes.items() if a.localpart not in formals or not a.uri.startswith(strict_prov())):
                    return "%s with attributes has no PROV-N production" % kind
                if set(formals) - present:
                    return "%s lacks a mandatory argument" % kind
            elif kind not in gen.ELEMENTS:
                if formals[0] not in present:
                    return "%s lacks its mandatory first argument" % kind
                if kind in BOTH_MANDATORY and formals[1] not in present:
                    return "%s lacks its mandatory second argument" % kind
            for a, vs in rec._attributes.items():
                for v in vs:
                    s = v if isinstance(v, str) else (v.value if isinstance(v, pm.Literal) else (v.uri if isinstance(v, Identifier) and not isinstance(v, QualifiedName) else None))
                    if s is not None and ("\r" in s):
                        return "carriage return in a string"
                    if isinstance(v, Identifier) and not isinstance(v, QualifiedName) and ('"' in v.uri or "\\" in v.uri or "\n" in v.uri):
                        return "URI value with quote/backslash/newline"
                    if isinstance(v, float) and (v != v or v in (float("inf"), float("-inf"))):
                        return "NaN/inf"
    return None


def strict_prov():
    return "http://www.w3.org/ns/prov#"


def float_fold(snap):
    """PROV-N has several lexical forms for one value: compare xsd:float/xsd:double literals by the real they denote."""
    return snap


def problems_of(doc):
    want = strict.strict(doc)
    try:
        text = doc.get_provn()
    except Exception as e:
        return ["get_provn() raised %s: %s" % (type(e).__name__, str(e)[:200])], None, None
    try:
        got, notes = provn_reader.read(text)
    except ReaderError as e:
        return ["the PROV-N grammar rejects the text: %s" % str(e)[:300]], text, None
    problems = []
    # content (bundle identifiers read leniently: with the bundle's own declarations, else the document's) ...
    if {k: set(v) for k, v in got.items()} == {k: set(v) for k, v in want.items()} and got != want:
        problems.append({"multiplicity": strict.diff(want, got)})
    elif got != want:
        problems.append({"diff": strict.diff(want, got)})
    return problems, text, notes


def scope_problems(notes):
    """The bundle identifiers stand before the bundle's own prefix declarations: they are names of the document's scope."""
    out = []
    if notes and notes["bundle_ids_outside_document_scope"]:
        out.append("the bundle identifier %r cannot be resolved with the document's prefix declarations (only with the bundle's own, "
                   "where it denotes <%s>)" % tuple(notes["bundle_ids_outside_document_scope"][0]))
    if notes and notes["ambiguous_bundle_ids"]:
        out.append("the bundle identifier %r denotes <%s> under the bundle's declarations but <%s> under the document's"
                   % tuple(notes["ambiguous_bundle_ids"][0]))
    return out


def judge(ctx, idx, case):
    ctx.hub.context = {"check": ID, "idx": idx}
    st = common.build(case["ops"])
    doc = st.doc
    common.tally_program(ctx, case["ops"], st)
    why = in_space(doc)
    if why:
        ctx.count("skipped.outside_space")
        ctx.count("skipped: %s" % why.split(" ")[0])
        common.drain_monitors(ctx, idx, case)
        return
    common.tally_doc(ctx, doc)
    problems, text, notes = problems_of(doc)
    ctx.count("texts_parsed_and_compared")
    if text is not None:
        if '"""' in text:
            ctx.count("text.long_string")
        if "\\\\" in text:
            ctx.count("text.escaped_backslash")
        if '\\"' in text:
            ctx.count("text.escaped_quote")
        if " - " in text or ", -" in text:
            ctx.count("text.marker")
        if "; " in text:
            ctx.count("text.relation_identifier")
        if "\n  bundle " in text:
            ctx.count("text.bundle")
        if "default <" in text:
            ctx.count("text.default_declaration")
        # serialize(format='provn') must be the same text, on every destination kind
        try:
            s1 = doc.serialize(format="provn")
            b = io.BytesIO()
            doc.serialize(b, format="provn")
            if s1 != text or b.getvalue().decode("utf-8") != text:
                problems.append("serialize(format='provn') differs from get_provn()")
            if idx % 3 == 0:
                t2, enc = common.text_file_roundtrip(doc, "provn")
                ctx.count("text_file_destination.%s" % enc)
                if t2 != text:
                    problems.append("serialize(format='provn') to a text file opened with the %s codec holds another text than get_provn()" % enc)
        except Exception as e:
            problems.append("serialize(format='provn') raised %s" % type(e).__name__)
    if not problems and scope_problems(notes):
        fid = findings.bundle_scope_finding(ID, st, notes)
        if fid:
            ctx.known_finding(fid, scope_problems(notes)[0][:200], {"idx": idx})
        else:
            ctx.violation(idx, "PROV-N: %s" % scope_problems(notes)[0][:300], case, {"problems": scope_problems(notes), "text": (text or "")[:5000]})
    elif problems:
        fid = findings.attribute(ID, case, lambda c: problems_of(common.build(c["ops"]).doc)[0])
        if fid:
            ctx.known_finding(fid, str(problems[0])[:200], {"idx": idx})
        else:
            ctx.violation(idx, "PROV-N: %s" % str(problems[0])[:300], case, {"problems": problems[:3], "text": (text or "")[:5000]})
    if common.nontrivial(doc):
        ctx.hashes.add(gen.case_hash(case["ops"]))
        ctx.sample({"program": case["ops"], "text": (text or "")[:1500]}, limit=2)
    common.drain_monitors(ctx, idx, case)


def run_case(ctx, idx):
    judge(ctx, idx, make_case(ctx, idx))


def replay(ctx, rec):
    judge(ctx, rec["idx"], rec["payload"])


def floors(counters, tier, extra):
    out = []
    need = 100 if tier == "quick" else 1000
    if counters.get("texts_parsed_and_compared", 0) < 3000:
        out.append("only %d texts parsed and compared" % counters.get("texts_parsed_and_compared", 0))
    for kind in gen.KINDS:
        if sum(v for k, v in counters.items() if k.startswith("kind.%s." % kind)) < need:
            out.append("kind %s under-represented" % kind)
    for k in ("text.long_string", "text.escaped_backslash", "text.escaped_quote", "text.marker", "text.relation_identifier", "text.bundle",
              "text.default_declaration", "value.float", "value.lang", "value.lit", "value.qn", "value.uri", "value.dt", "value.bool", "value.int"):
        if counters.get(k, 0) < need:
            out.append("%s seen only %d times" % (k, counters.get(k, 0)))
    out.extend(common.cov_floor(extra))
    return out


TECHNIQUE = "runtime monitoring: emitted PROV-N read back by an independent grammar-based reader and compared with the strict snapshot"
LEVEL_TEXT = ("Exploration by runtime observation with an independent oracle: the PROV-N text of thousands of generated documents is parsed by a "
              "hand-written recursive-descent parser of the W3C PROV-N grammar (rejecting anything the grammar rejects) and the parsed document "
              "-- identifiers, positional arguments and '-' markers, attribute-value pairs with datatypes and language tags, exact string and "
              "numeric values, URIs resolved through the printed default/prefix declarations of document and bundles -- is compared with the "
              "strict snapshot of the source.")
LEVEL_NOTE = ("Trusted: our reading of the PROV-N grammar (pv/readers/provn.py, cross-validated against the library on the example documents); "
              "boundary decisions are listed in the evidence assumptions.")
DESIGN_REF = "DESIGN.md section 4.2 and section 6, C06"
