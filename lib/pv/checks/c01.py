"""C01 -- PROV-JSON round trip preserves every document exactly.

Oracle: strict(d) == strict(read(write(d))) as multisets per bundle (URI level, kind aware), for
json.dump option sets, plus a second generation write(read(write(d))).  The emitted text must be
JSON.  Monitors NS/NF/IDX/PURE stay attached (their reports are recorded, decided in C03/C05/C18/C13).
"""
import io
import itertools
import json

from pv import gen, strict, findings
from pv.checks import common
from pv.runner import case_rng

import prov.model as pm

ID = "C01"
LEVEL = "exploration"
ANCHORS = [
    "prov.serializers.provjson:encode_json_document", "prov.serializers.provjson:encode_json_container",
    "prov.serializers.provjson:decode_json_document", "prov.serializers.provjson:decode_json_container",
    "prov.serializers.provjson:encode_json_representation", "prov.serializers.provjson:decode_json_representation",
    "prov.serializers.provjson:literal_json_representation", "prov.serializers.provjson:AnonymousIDGenerator.get_anon_id",
    "prov.model:ProvRecord._auto_literal_conversion", "prov.model:parse_xsd_types",
    "prov.model:NamespaceManager.valid_qualified_name",
]
OPTS = [dict(indent=i, sort_keys=s, ensure_ascii=a) for i in (None, 0, 2) for s in (False, True) for a in (True, False)]


def plan(tier, seed):
    return {
        "cases": 12000 if tier == "quick" else 60000,
        "hashseeds": [0] if tier == "quick" else [0, 1, 2, 3],
        "timeout_s": 240 if tier == "quick" else 2400,
        "rule": "case = program of profile c01 (random.Random('<seed>/C01/<idx>')) x sampled json.dump option sets "
                "(quick: 2 of 12 per program, thorough: all 12); distinct = distinct canonical program hash; "
                "non-trivial = the built document has >= 1 record and the round-trip oracle was evaluated",
        "assumptions": [
            "json (stdlib) is the trusted parser for the well-formedness clause",
            "documents are bounded: <= ~30 records, <= 2 bundles, small hostile name pools",
            "excluded from the input space as in the quantifier/DESIGN: NaN/inf, lone surrogates, UTC offsets with seconds, "
            "local parts containing ':' or whitespace, add_namespace('', uri), equal-but-different-kind values in one attribute",
        ],
    }


def setup_worker(ctx):
    common.setup(ctx, ANCHORS)
    common.ELSEWHERE["one_in"] = 60      # one document in sixty is built by another interpreter process and arrives by pickle


def finish_worker(ctx):
    common.finish(ctx)


def make_case(ctx, idx):
    r = case_rng(ctx.seed, ID, idx)
    ops = gen.Gen(r, gen.profile("c01", multi_member=0.15)).program()
    if ctx.tier == "quick":
        opts = r.sample(range(len(OPTS)), 2)
    else:
        opts = list(range(len(OPTS)))
    dest = r.choice(["str", "text", "bytes", "text_file_other_codec"])
    return {"ops": ops, "opts": opts, "dest": dest}


def same_kind_collision(doc):
    """Quantifier carve-out: one attribute holding two values that compare equal but differ in kind."""
    for b in [doc] + list(doc._bundles.values()):
        for rec in b._records:
            for a, vs in rec._attributes.items():
                if len({strict.vkey(v) for v in vs}) != len({strict.collapse_vkey(strict.vkey(v)) for v in vs}):
                    return True
    return False


def write(doc, opt, dest):
    if dest == "str":
        return doc.serialize(format="json", **opt)
    if dest == "text":
        s = io.StringIO()
        doc.serialize(s, format="json", **opt)
        return s.getvalue()
    if dest == "text_file_other_codec":
        return common.text_file_roundtrip(doc, "json", **opt)[0]
    b = io.BytesIO()
    doc.serialize(b, format="json", **opt)
    return b.getvalue().decode("utf-8")


def roundtrip_problems(doc, opt, dest):
    """Returns (problems, text). Pure function of the document: used for judging and for re-judging
    after neutralising a known finding."""
    a = strict.strict(doc)
    try:
        text = write(doc, opt, dest)
    except Exception as e:
        return ["serialize raised %s: %s" % (type(e).__name__, str(e)[:200])], None
    try:
        json.loads(text)
    except Exception as e:
        return ["emitted text is not JSON: %s" % e], text
    try:
        d2 = pm.ProvDocument.deserialize(content=text, format="json")
    except Exception as e:
        return ["deserialize raised %s: %s" % (type(e).__name__, str(e)[:200])], text
    b = strict.strict(d2)
    if a != b:
        return [{"generation": 1, "diff": strict.diff(a, b)}], text
    # second generation: the re-read document must write and read back to the same content again
    try:
        text2 = d2.serialize(format="json", **opt)
        d3 = pm.ProvDocument.deserialize(content=text2, format="json")
    except Exception as e:
        return ["second generation raised %s: %s" % (type(e).__name__, str(e)[:200])], text
    c = strict.strict(d3)
    if a != c:
        return [{"generation": 2, "diff": strict.diff(a, c)}], text
    return [], text


def judge(ctx, idx, case):
    ops = case["ops"]
    ctx.hub.context = {"check": ID, "idx": idx}
    st = common.build(ops)
    doc = st.doc
    common.tally_program(ctx, ops, st)
    if same_kind_collision(doc):
        ctx.count("skipped.equal_values_of_different_kind")
        common.drain_monitors(ctx, idx, case)
        return
    common.tally_doc(ctx, doc)
    judged = False
    for oi in case["opts"]:
        opt = OPTS[oi]
        ctx.count("roundtrips")
        ctx.count("opt.indent=%s,sort_keys=%s,ensure_ascii=%s" % (opt["indent"], opt["sort_keys"], opt["ensure_ascii"]))
        ctx.count("dest.%s" % case["dest"])
        problems, text = roundtrip_problems(doc, opt, case["dest"])
        judged = True
        if text and '": [' in text.replace("\n", "").replace(" ", "").replace('":[', '": ['):
            ctx.count("json.array_encoding_seen")
        if problems:
            fid = findings.attribute(ID, case, lambda c: _rejudge(c, oi))
            if fid:
                ctx.known_finding(fid, str(problems[0])[:200], {"idx": idx})
            else:
                ctx.violation(idx, "PROV-JSON round trip changed the document (%s)" % json.dumps(opt), case,
                              {"problems": problems, "text": (text or "")[:4000], "outcomes": st.outcomes})
            break
    if judged and common.nontrivial(doc):
        ctx.hashes.add(gen.case_hash(ops))
        ctx.sample({"program": ops, "options": [OPTS[i] for i in case["opts"]], "destination": case["dest"],
                    "records": strict.total_records(strict.strict(doc))}, limit=2)
    common.drain_monitors(ctx, idx, case)


def _rejudge(case, oi):
    st = common.build(case["ops"])
    return roundtrip_problems(st.doc, OPTS[oi], case["dest"])[0]


def run_case(ctx, idx):
    judge(ctx, idx, make_case(ctx, idx))


def replay(ctx, rec):
    judge(ctx, rec["idx"], rec["payload"])


def floors(counters, tier, extra):
    out = []
    need = 20 if tier == "quick" else 200
    for kind in gen.KINDS:
        n = sum(v for k, v in counters.items() if k.startswith("kind.%s." % kind))
        if n < need:
            out.append("record kind %s built only %d times" % (kind, n))
        for flavour in ("id", "anon"):
            if kind in gen.ELEMENTS and flavour == "anon":
                continue
            if sum(v for k, v in counters.items() if k.startswith("kind.%s.%s." % (kind, flavour))) < need // 4:
                out.append("record kind %s/%s under-represented" % (kind, flavour))
    for vk in gen.DEFAULT_PROFILE["value_kinds"]:
        if counters.get("value.%s" % vk, 0) < need:
            out.append("value kind %s seen %d times" % (vk, counters.get("value.%s" % vk, 0)))
    for feat in ("ns.default_at_document", "ns.default_at_bundle", "ns.bundle_declares_prefixes", "ns.generated_looking_prefix",
                 "doc.repeated_identifier", "attr.multi_valued", "json.array_encoding_seen", "mon.NS.renamed_on_add",
                 "idform.uri", "idform.str", "idform.qn", "idform.local", "mon.NS.path.qn-default->dn"):
        if counters.get(feat, 0) < need // 4:
            out.append("feature %s seen %d times" % (feat, counters.get(feat, 0)))
    if counters.get("roundtrips", 0) < 1000:
        out.append("fewer than 1000 round trips judged")
    out.extend(common.cov_floor(extra))
    return out

TECHNIQUE = "runtime monitoring: generated API programs, strict URI-level snapshot oracle on write/read executions"
LEVEL_TEXT = ("Exploration by runtime observation: thousands of generated public-API programs (all 18 record kinds, argument masks, "
              "value kinds, hostile namespace histories, bundles) are executed against the real library; each document is written "
              "with sampled/all json.dump option sets to str/text/binary destinations and read back, and a strict, URI-level, "
              "kind-aware multiset snapshot taken outside the library's own == decides equality (two generations). "
              "Held means: held on the executions listed in the evidence.")
LEVEL_NOTE = ("Trusted: CPython json as well-formedness judge, the strict snapshot reader (reads record tables directly). "
              "Bounded documents (<= ~30 records, <= 2 bundles); input-space exclusions are listed in the evidence assumptions.")
DESIGN_REF = "DESIGN.md section 6, C01"
