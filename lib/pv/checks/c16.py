"""C16 -- all source/destination kinds agree, and prov.read detects the format.

For every document and format the whole matrix is enumerated: 4 destination kinds (returned string, text stream, binary
stream, file path) x 5 source kinds (content str, content bytes, text stream, binary stream, path) plus prov.read on the
3 source kinds its signature accepts, with and without an explicit format.  Texts are compared byte for byte where the
format is deterministic (JSON, PROV-N), by what they parse to for XML, by graph isomorphism for RDF; every deserialisation
is compared by strict snapshot.
"""
import io
import os
import shutil
import tempfile

import prov
from pv import gen, rdfspace, strict, interp, models
from pv.checks import common, c02
from pv.runner import case_rng

import prov.model as pm

ID = "C16"
LEVEL = "exploration"
ANCHORS = ["prov.model:ProvDocument.serialize", "prov.model:ProvDocument.deserialize", "prov:read",
           "prov.serializers.provjson:ProvJSONSerializer.serialize", "prov.serializers.provjson:ProvJSONSerializer.deserialize",
           "prov.serializers.provxml:ProvXMLSerializer.serialize", "prov.serializers.provxml:ProvXMLSerializer.deserialize",
           "prov.serializers.provrdf:ProvRDFSerializer.serialize", "prov.serializers.provrdf:ProvRDFSerializer.deserialize",
           "prov.serializers.provn:ProvNSerializer.serialize", "prov.serializers:Registry.load_serializers", "prov.serializers:get"]
DESTS = ["string", "text_stream", "binary_stream", "path", "write_only_sink"]


class Sink:
    """A destination that has write() and nothing else (a hashing sink, a response body, a socket wrapper)."""

    def __init__(self):
        self.parts = []

    def write(self, data):
        self.parts.append(data)
        return len(data)


class ReadOnly:
    """A source that has read() and nothing else."""

    def __init__(self, data):
        self._b = io.BytesIO(data)

    def read(self, *a):
        return self._b.read(*a)
PATH_NAMES = ["out-été.%s", "a#b.%s", "x?y=1.%s", "semi;colon.%s", "with space.%s", "c:d.%s", "plain.%s"]
SOURCES = ["content_str", "content_bytes", "text_stream", "binary_stream", "path", "text_file_other_encoding", "read_only_object",
           "open_file_whose_name_was_reused"]


def plan(tier, seed):
    return {
        "cases": 640 if tier == "quick" else 10000,
        "hashseeds": [0] if tier == "quick" else [0, 1, 2, 3],
        "timeout_s": 400 if tier == "quick" else 3400,
        "rule": "case = a document of the PROV-O-expressible space (the intersection of the C01/C02/C07 spaces) with non-ASCII content x "
                "every format in {json, xml, rdf, provn}: all 4 destination kinds, and for the readable formats all 4 x 5 (destination, source) "
                "cells plus prov.read on path / text stream / binary stream with and without format. distinct = (program hash, format); "
                "non-trivial = >= 1 record and the full matrix of that format was enumerated",
        "assumptions": [
            "prov.read has no content parameter: its source kinds are path, text stream and binary stream",
            "RDF texts are compared by isomorphism (blank-node labels are fresh on every serialisation) and RDF readings by unified content",
            "files are written and read in a private directory; the process' preferred encoding is UTF-8",
        ],
    }


def setup_worker(ctx):
    common.setup(ctx, ANCHORS)
    ctx.root = tempfile.mkdtemp(prefix="pv-c16-", dir=os.environ.get("TMPDIR"))
    # a tight descriptor budget: every worker makes several hundred reads and writes of every source/destination kind; a kind that
    # keeps a descriptor per call runs out (EMFILE) long before the run ends and then disagrees with the others by raising
    import resource
    soft, hard = resource.getrlimit(resource.RLIMIT_NOFILE)
    resource.setrlimit(resource.RLIMIT_NOFILE, (min(192, soft), hard))
    ctx.fds_at_start = len(os.listdir("/proc/self/fd"))


def finish_worker(ctx):
    _lift_descriptor_budget()
    ctx.count("open_descriptors.at_start", ctx.fds_at_start)
    ctx.count("open_descriptors.at_end", len(os.listdir("/proc/self/fd")))
    common.finish(ctx)
    shutil.rmtree(ctx.root, ignore_errors=True)


def make_case(ctx, idx):
    r = case_rng(ctx.seed, ID, idx)
    if r.random() < 0.04:
        # a document without any record (only declarations): its serialisations are valid texts as well
        return {"ops": [["ns", "D", p, u] for p, u in rdfspace.NS[: r.randint(0, 3)]]}
    return {"ops": rdfspace.program(r, non_ascii=True, max_records=4)}


WRITER_OPTIONS = {"json": [{}, {"indent": 2}, {"indent": 1, "sort_keys": True}], "xml": [{}, {"force_types": True}],
                  "rdf": [{}, {"rdf_format": "trig"}], "provn": [{}]}


def write_all(doc, fmt, box, kw=None, tag=""):
    """The four destination kinds -> {kind: bytes-or-str}; kw = serializer options, the same for every destination"""
    out = {}
    kw = kw or {}
    out["string"] = doc.serialize(format=fmt, **kw)
    s = io.StringIO()
    doc.serialize(s, format=fmt, **kw)
    out["text_stream"] = s.getvalue()
    b = io.BytesIO()
    doc.serialize(b, format=fmt, **kw)
    out["binary_stream"] = b.getvalue()
    sink = Sink()
    doc.serialize(sink, format=fmt, **kw)
    out["write_only_sink"] = b"".join(sink.parts) if sink.parts and isinstance(sink.parts[0], bytes) else "".join(sink.parts)
    name = PATH_NAMES[len(fmt) % len(PATH_NAMES)] % (tag + fmt)
    p = os.path.join(box, name)
    if len(kw) % 2 == 0:
        # the same *relative* name in the case's own directory: every case uses another current directory
        cwd = os.getcwd()
        os.chdir(box)
        try:
            doc.serialize(name, format=fmt, **kw)
        finally:
            os.chdir(cwd)
    else:
        doc.serialize(p, format=fmt, **kw)
    with open(p, "rb") as f:
        out["path"] = f.read()
    return out, p


def as_text(x):
    return x.decode("utf-8") if isinstance(x, bytes) else x


def snap(doc, fmt):
    if fmt == "rdf":
        return {k: set(models.setlike(r) for r in v) for k, v in strict.strict(doc.unified()).items()}
    return strict.strict(doc)


def read_source(kind, data, fmt, box, n):
    text = as_text(data)
    if kind == "content_str":
        return pm.ProvDocument.deserialize(content=text, format=fmt)
    if kind == "content_bytes":
        return pm.ProvDocument.deserialize(content=text.encode("utf-8"), format=fmt)
    if kind == "text_stream":
        return pm.ProvDocument.deserialize(io.StringIO(text), format=fmt)
    if kind == "binary_stream":
        return pm.ProvDocument.deserialize(io.BytesIO(text.encode("utf-8")), format=fmt)
    if kind == "open_file_whose_name_was_reused":
        # the file is opened, then another document is saved under the same name (a rename puts a new file there): the open stream
        # still holds the first document, and that is what reading *the stream* gives
        p = os.path.join(box, "reused%d.%s" % (n, fmt))
        with open(p, "wb") as f:
            f.write(text.encode("utf-8"))
        with open(p, "rb") as f:
            other = pm.ProvDocument()
            other.add_namespace("late", "http://late.example/")
            other.entity("late:written-under-the-same-name")
            other.serialize(p, format=fmt)
            return pm.ProvDocument.deserialize(f, format=fmt)
    if kind == "read_only_object":
        return pm.ProvDocument.deserialize(ReadOnly(text.encode("utf-8")), format=fmt)
    if kind == "text_file_other_encoding":
        # a text stream is text whatever encoding its file uses: written and re-opened with a non-UTF-8 codec
        enc = "utf-16"
        for cand in ("latin-1", "cp1252"):
            try:
                text.encode(cand)
                enc = cand
                break
            except UnicodeEncodeError:
                pass
        p = os.path.join(box, "enc%d.%s" % (n, fmt))
        with open(p, "w", encoding=enc, newline="") as f:
            f.write(text)
        with open(p, "r", encoding=enc, newline="") as f:
            return pm.ProvDocument.deserialize(f, format=fmt)
    p = os.path.join(box, PATH_NAMES[n % len(PATH_NAMES)] % ("%d.%s" % (n, fmt)))
    with open(p, "wb") as f:
        f.write(data if isinstance(data, bytes) else data.encode("utf-8"))
    return pm.ProvDocument.deserialize(p, format=fmt)


def judge(ctx, idx, case):
    ctx.hub.context = {"check": ID, "idx": idx}
    doc = common.build(case["ops"]).doc
    if rdfspace.in_space(doc) or c02.in_space(doc):
        ctx.count("skipped.outside_intersection")
        return
    try:
        doc.unified()
    except pm.ProvException:
        ctx.count("skipped.not_unifiable")
        return
    problems = []
    box = tempfile.mkdtemp(prefix="case-", dir=ctx.root)
    try:
        from pv import findings
        rdf_reading_is_order_dependent = "KF-C07-1" in findings.OPEN and bool(findings._kf_c07_groups(case))
        for fmt in ("json", "xml", "rdf", "provn"):
            if fmt == "rdf" and rdf_reading_is_order_dependent:
                # open finding KF-C07-1 (C07): what the PROV-O reader makes of such a document depends on triple order, so two
                # readings of the same text may differ; the RDF cells of this document are not judged here
                ctx.count("skipped.rdf_cells.known_finding_KF-C07-1")
                continue
            opts = WRITER_OPTIONS[fmt]
            kw = opts[(len(case["ops"]) + len(fmt)) % len(opts)]
            ctx.count("writer_options.%s.%s" % (fmt, ",".join(sorted(kw)) or "none"))
            if fmt == "rdf":
                # the other RDF syntaxes: every destination kind must hold that syntax (the reading matrix is claimed for TriG only)
                syn = ("nt", "nquads", "turtle", "xml")[len(case["ops"]) % 4]
                try:
                    alt, _p = write_all(doc, fmt, box, {"rdf_format": syn}, tag="alt-")
                    import rdflib
                    from pv.checks.c13 import _iso
                    graphs = {}
                    for k in DESTS:
                        g = rdflib.ConjunctiveGraph()
                        g.parse(data=as_text(alt[k]), format=syn)
                        graphs[k] = g
                    for k in DESTS[1:]:
                        if not _iso(graphs["string"], graphs[k]):
                            problems.append({"format": fmt, "problem": "rdf_format=%s: destination %s holds another graph than the returned string" % (syn, k)})
                    ctx.count("rdf_other_syntax.%s" % syn)
                except Exception as e:
                    problems.append({"format": fmt, "problem": "rdf_format=%s: a destination kind does not hold that syntax (%s: %s)" % (syn, type(e).__name__, str(e)[:160])})
                if problems:
                    break
            try:
                outs, path = write_all(doc, fmt, box, kw)
            except Exception as e:
                problems.append({"format": fmt, "problem": "a destination kind raised %s: %s" % (type(e).__name__, str(e)[:200])})
                break
            ctx.count("destinations.%s" % fmt, 4)
            ref = as_text(outs["string"])
            for k in DESTS[1:]:
                t = as_text(outs[k])
                if fmt in ("json", "provn"):
                    same = t == ref
                elif fmt == "xml":
                    from pv.readers import provxml as xr
                    try:
                        same = xr.read(outs[k])[0] == xr.read(outs["string"])[0]
                    except Exception as e:
                        same = False
                else:
                    import rdflib
                    from pv.checks.c13 import _iso
                    g1, g2 = rdflib.ConjunctiveGraph(), rdflib.ConjunctiveGraph()
                    g1.parse(data=ref, format="trig")
                    g2.parse(data=t, format="trig")
                    same = _iso(g1, g2)
                if not same:
                    problems.append({"format": fmt, "problem": "destination %s holds another text than the returned string" % k,
                                     "string": ref[:600], k: t[:600]})
            if isinstance(outs["binary_stream"], str) or isinstance(outs["path"], str):
                problems.append({"format": fmt, "problem": "binary destination received str"})
            if problems:
                break
            if fmt == "provn":
                if "é" not in ref and "Đ" not in ref and "日" not in ref and "中" not in ref:
                    ctx.count("provn.ascii_only")
                continue
            want = snap(doc, fmt) if fmt != "rdf" else None
            base = None
            n = 0
            for dk in DESTS:
                for sk in SOURCES:
                    n += 1
                    ctx.count("cells.%s" % fmt)
                    try:
                        d2 = read_source(sk, outs[dk], fmt, box, n)
                        got = snap(d2, fmt)
                    except Exception as e:
                        problems.append({"format": fmt, "problem": "reading %s written to %s raised %s: %s" % (sk, dk, type(e).__name__, str(e)[:160])})
                        break
                    if base is None:
                        base = got
                        if fmt == "rdf":
                            want = snap(doc, fmt)
                        if fmt == "rdf":
                            # whether the RDF reading is the unified document is C07's claim; here the cells must agree with each
                            # other and must not be empty
                            if sum(len(v) for v in got.values()) == 0 and sum(len(v) for v in want.values()) > 0:
                                problems.append({"format": fmt, "problem": "%s <- %s gives an empty document" % (sk, dk)})
                                break
                        elif got != want:
                            problems.append({"format": fmt, "problem": "%s <- %s does not give the document back" % (sk, dk),
                                             "diff": strict.jsonable(_d(want, got))})
                            break
                    elif got != base:
                        problems.append({"format": fmt, "problem": "source kind %s of destination %s deserialises to another document than content_str of string" % (sk, dk),
                                         "diff": strict.jsonable(_d(base, got))})
                        break
                if problems:
                    break
            if problems:
                break
            # prov.read: path, text stream, binary stream; with and without format
            text = as_text(outs["path"])
            for how in ("path", "text_stream", "binary_stream"):
                for given in (None, fmt, fmt.upper()):
                    ctx.count("prov_read.%s.%s" % (fmt, "detect" if given is None else "told"))
                    try:
                        src = path if how == "path" else (io.StringIO(text) if how == "text_stream" else io.BytesIO(text.encode("utf-8")))
                        d3 = prov.read(src, format=given)
                        got = snap(d3, fmt)
                    except Exception as e:
                        problems.append({"format": fmt, "problem": "prov.read(%s, format=%r) raised %s: %s" % (how, given, type(e).__name__, str(e)[:160])})
                        continue
                    if got != base:
                        problems.append({"format": fmt, "problem": "prov.read(%s, format=%r) returns another document (%d records instead of %d)"
                                         % (how, given, sum(len(v) for v in got.values()), sum(len(v) for v in base.values())),
                                         "diff": strict.jsonable(_d(base, got))})
            if problems:
                break
            ctx.count("matrices_enumerated.%s" % fmt)
    finally:
        shutil.rmtree(box, ignore_errors=True)
    common.drain_monitors(ctx, idx, case)
    if problems:
        ctx.violation(idx, "%s: %s" % (problems[0]["format"], problems[0]["problem"]), case, {"problems": problems[:3]})
    if common.nontrivial(doc):
        ctx.hashes.add(gen.case_hash(case["ops"]))
        ctx.sample({"program": case["ops"]}, limit=1)
    if any(ord(ch) > 127 for op in case["ops"] for ch in repr(op)):
        ctx.count("documents_with_non_ascii_content")


def _d(a, b):
    out = []
    for k in sorted(set(a) | set(b), key=repr):
        x, y = a.get(k), b.get(k)
        if x is None or y is None:
            out.append(["bundle only on one side", k])
        elif x != y:
            xs, ys = (set(x), set(y))
            out.append(["lost", k, list(xs - ys)[:2]])
            out.append(["gained", k, list(ys - xs)[:2]])
    return out[:6]


def _lift_descriptor_budget():
    import resource
    soft, hard = resource.getrlimit(resource.RLIMIT_NOFILE)
    resource.setrlimit(resource.RLIMIT_NOFILE, (hard, hard))


def run_case(ctx, idx):
    if getattr(ctx, "fd_exhausted", False):
        ctx.count("skipped.after_descriptor_exhaustion")
        return
    import errno
    case = make_case(ctx, idx)
    emfile = None
    try:
        judge(ctx, idx, case)
    except OSError as e:
        if e.errno != errno.EMFILE:
            raise
        emfile = e
    try:
        now = len(os.listdir("/proc/self/fd"))
    except OSError:
        _lift_descriptor_budget()
        now = len(os.listdir("/proc/self/fd"))
    if emfile is not None or now > ctx.fds_at_start + 100:
        # the worker's descriptor budget (192) is (nearly) spent: lift it (the worker still has to write its results), report, and
        # stop this worker's workload
        _lift_descriptor_budget()
        kinds = {}
        for fd in os.listdir("/proc/self/fd"):
            try:
                t = os.readlink("/proc/self/fd/" + fd)
            except OSError:
                continue
            k = os.path.basename(os.path.dirname(t))[:24] if "/" in t else t[:24]
            kinds[k] = kinds.get(k, 0) + 1
        ctx.fd_exhausted = True
        ctx.violation(idx, "a source/destination kind keeps a file descriptor per call: %d descriptors are open (%d when the worker "
                      "started)%s" % (now, ctx.fds_at_start,
                                      "; the next call failed with EMFILE" if emfile is not None else ""), case,
                      {"open_descriptors": now, "at_start": ctx.fds_at_start, "directories_of_the_open_files": sorted(kinds.items(), key=lambda kv: -kv[1])[:5]})


def replay(ctx, rec):
    judge(ctx, rec["idx"], rec["payload"])


def floors(counters, tier, extra):
    out = []
    need = 200 if tier == "quick" else 4000
    for fmt in ("json", "xml", "rdf"):
        if counters.get("matrices_enumerated.%s" % fmt, 0) < need:
            out.append("full matrix for %s enumerated only %d times" % (fmt, counters.get("matrices_enumerated.%s" % fmt, 0)))
        if counters.get("prov_read.%s.detect" % fmt, 0) < need:
            out.append("prov.read detection for %s only %d times" % (fmt, counters.get("prov_read.%s.detect" % fmt, 0)))
    if counters.get("destinations.provn", 0) < need:
        out.append("provn destinations only %d" % counters.get("destinations.provn", 0))
    if counters.get("documents_with_non_ascii_content", 0) < need:
        out.append("documents with non-ASCII content only %d" % counters.get("documents_with_non_ascii_content", 0))
    out.extend(common.cov_floor(extra))
    return out


TECHNIQUE = "runtime monitoring: exhaustive enumeration of the (destination kind x source kind x detection mode) matrix per generated document, strict snapshot oracle"
LEVEL_TEXT = ("Exploration by runtime observation with the small product enumerated completely per document: for generated documents with non-ASCII "
              "content in the intersection of the C01/C02/C07 spaces, every format is written to all 4 destination kinds (texts compared byte "
              "for byte, by parse for XML, by isomorphism for RDF), every (destination, source) cell of the 4 x 5 matrix is deserialised and "
              "compared by strict snapshot, and prov.read is called on path / text stream / binary stream with and without (and with "
              "upper-case) format."
              " Destinations also include an object that only has write() and the same relative file name from another current directory; sources an object that only has read(), a text file in another codec and an open file whose name was reused; serializer options are the same for every destination kind; workers run under a descriptor budget of 192.")
LEVEL_NOTE = "Trusted: strict snapshots, the independent XML reader and rdflib isomorphism for text comparison. Bounded documents."
DESIGN_REF = "DESIGN.md section 6, C16"
