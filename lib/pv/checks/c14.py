"""C14 -- graph conversion mirrors the document and converts back to its unified form.

Oracle: a model computed from strict(d.unified()): the node multiset (element records + one inferred node per referenced,
undeclared endpoint whose kind follows from the formal attribute) and the edge multiset (first argument URI -> second
argument URI, relation key) are compared with g.nodes() / g.edges(data=True); graph_to_prov(g) must be the unified
document restricted to elements and those relations.
"""
import collections

from pv import gen, monitors, strict, interp
from pv.checks import common
from pv.runner import case_rng

import prov.model as pm

ID = "C14"
LEVEL = "exploration"
ANCHORS = ["prov.graph:prov_to_graph", "prov.graph:graph_to_prov", "prov.model:ProvDocument.unified", "prov.model:ProvBundle.get_records"]
P = monitors.PROVNS
# kind inferred for an undeclared endpoint, by formal attribute (PROV-DM; written out independently of prov.graph)
INFER = {
    "entity": "Entity", "activity": "Activity", "agent": "Agent", "trigger": "Entity", "generatedEntity": "Entity", "usedEntity": "Entity",
    "delegate": "Agent", "responsible": "Agent", "specificEntity": "Entity", "generalEntity": "Entity", "alternate1": "Entity",
    "alternate2": "Entity", "collection": "Entity", "informed": "Activity", "informant": "Activity", "plan": "Entity", "ender": "Entity",
    "starter": "Entity",
}
ELEMENT_TYPES = {P + "Entity", P + "Activity", P + "Agent"}


def plan(tier, seed):
    return {
        "cases": 8000 if tier == "quick" else 160000,
        "hashseeds": [0] if tier == "quick" else [0, 1, 2, 3],
        "timeout_s": 300 if tier == "quick" else 3000,
        "rule": "case = a bundle-free c14-profile program (declared and undeclared endpoints, repeated identifiers, parallel relations, "
                "self-loops, relations lacking an endpoint); documents whose unified() raises are counted, not judged. distinct = canonical "
                "program hash; non-trivial = >= 1 relation with both endpoints and the graph was compared with the model",
        "assumptions": [
            "influence relations with an undeclared endpoint are skipped by the converter by documented design",
            "when one undeclared name is referenced through formal attributes of different classes, any of those classes is accepted for the "
            "single inferred node",
            "an inferred node that was created for a relation which is then skipped is not required to be absent from later edges",
        ],
    }


def setup_worker(ctx):
    common.setup(ctx, ANCHORS)
    common.ELSEWHERE["one_in"] = 60      # one document in sixty is built by another interpreter process and arrives by pickle


def finish_worker(ctx):
    common.finish(ctx)


def make_case(ctx, idx):
    r = case_rng(ctx.seed, ID, idx)
    return {"ops": gen.Gen(r, gen.profile("c14", locals=["e1", "e2", "a1", "a2", "ag1", "x.y"])).program()}


def first_two(rk):
    kind = rk[0][len(P):]
    formals = gen.KINDS[kind][1]
    vals = {a: v for (a, v), _n in rk[2]}
    out = []
    for f in formals[:2]:
        v = vals.get(P + f)
        out.append((f, v[1] if v is not None and v[0] == "qn" else None))
    return out


def declared_names(elements):
    return {k[1] for k in elements}


def model(unified_keys):
    elements = [k for k in unified_keys if k[0] in ELEMENT_TYPES]
    declared = {k[1] for k in elements}
    edges = collections.Counter()
    inferred = {}            # uri -> set of acceptable kinds
    kept_relations = collections.Counter()
    skipped = 0
    for k in unified_keys:
        if k[0] in ELEMENT_TYPES:
            continue
        (f1, u1), (f2, u2) = first_two(k)
        if not (u1 and u2):
            continue
        ok = True
        for f, u in ((f1, u1), (f2, u2)):
            if u not in declared and f not in INFER and u not in inferred:
                ok = False
        if not ok:
            # endpoints before the failing one may already have been inferred by the converter: allow them
            for f, u in ((f1, u1), (f2, u2)):
                if u not in declared and f in INFER:
                    inferred.setdefault(u, set()).add(("maybe", INFER[f]))
            skipped += 1
            continue
        for f, u in ((f1, u1), (f2, u2)):
            if u not in declared:
                inferred.setdefault(u, set())
                if f in INFER:
                    inferred[u].add(("used", INFER[f]))
                else:
                    inferred[u].add(("used", None))
        edges[(u1, u2, strict.setlike_key(k))] += 1
        kept_relations[strict.setlike_key(k)] += 1
    return elements, inferred, edges, kept_relations, skipped


def judge(ctx, idx, case):
    from prov.graph import prov_to_graph, graph_to_prov
    ctx.hub.context = {"check": ID, "idx": idx}
    st = common.build(case["ops"])
    doc = st.doc
    common.tally_program(ctx, case["ops"], st)
    if doc.has_bundles():
        ctx.count("skipped.has_bundles")
        return
    try:
        uni = doc.unified()
    except pm.ProvException:
        ctx.count("skipped.not_unifiable")
        common.drain_monitors(ctx, idx, case)
        return
    ukeys = strict.ordered_bundle(uni)
    elements, inferred, edges, kept, skipped = model(ukeys)
    problems = []
    try:
        g = prov_to_graph(doc)
    except Exception as e:
        ctx.violation(idx, "prov_to_graph raised %s: %s" % (type(e).__name__, str(e)[:200]), case, {})
        return
    # ---- nodes
    got_elem = collections.Counter()
    got_inferred = collections.Counter()
    for n in g.nodes():
        if not isinstance(n, pm.ProvElement):
            problems.append("node %r is not an element record" % (n,))
            continue
        if n.bundle is None:
            got_inferred[(n.identifier.uri, n.get_type().uri[len(P):])] += 1
            if n._attributes and any(n._attributes.values()):
                problems.append("inferred node <%s> carries attributes" % n.identifier.uri)
        else:
            got_elem[strict.setlike_key(strict.rec_key(n))] += 1
    want_elem = collections.Counter(strict.setlike_key(k) for k in elements)
    if got_elem != want_elem:
        problems.append({"nodes": "element nodes differ from the element records of the unified document",
                         "missing": strict.jsonable(list((want_elem - got_elem).elements())[:3]),
                         "unexpected": strict.jsonable(list((got_elem - want_elem).elements())[:3])})
    used = {u for (u1, u2, _k) in edges for u in (u1, u2)}
    for (u, kind), n in got_inferred.items():
        if n != 1:
            problems.append("inferred node <%s> occurs %d times" % (u, n))
        if u not in inferred:
            problems.append("inferred node <%s> although the name is declared or never referenced" % u)
        else:
            kinds = {k for _w, k in inferred[u] if k}
            if kinds and kind not in kinds:
                problems.append("inferred node <%s> typed %s, the referencing attributes infer %s" % (u, kind, sorted(kinds)))
    per_name = collections.Counter(u for (u, _kind), n in got_inferred.items() for _ in range(n))
    for u, n in per_name.items():
        if n != 1:
            # one node per undeclared endpoint, whatever the roles it is referenced in (a self-loop used(x, x) has one node x)
            problems.append("%d inferred nodes for the one undeclared name <%s> (%s)" % (n, u, sorted(k for (u2, k) in got_inferred if u2 == u)))
    need_inferred = {u for u, tags in inferred.items() if any(w == "used" for w, _k in tags)}
    missing = need_inferred - {u for u, _k in got_inferred}
    if missing:
        problems.append("no node for the referenced, undeclared name(s) %s" % sorted(missing)[:3])
    extra = {u for u, _k in got_inferred} - need_inferred
    if extra:
        problems.append("inferred node(s) %s that no edge uses" % sorted(extra)[:3])
    # ---- edges
    got_edges = collections.Counter()
    for a, b, data in g.edges(data=True):
        rel = data.get("relation")
        if not isinstance(rel, pm.ProvRelation):
            problems.append("edge without relation record")
            continue
        got_edges[(a.identifier.uri, b.identifier.uri, strict.setlike_key(strict.rec_key(rel)))] += 1
    if got_edges != edges:
        problems.append({"edges": "edge multiset differs from the model",
                         "missing": strict.jsonable([(x[0], x[1], x[2][0]) for x in (edges - got_edges).elements()][:4]),
                         "unexpected": strict.jsonable([(x[0], x[1], x[2][0]) for x in (got_edges - edges).elements()][:4])})
    ctx.count("graphs_compared")
    ctx.count("edges_compared", sum(edges.values()))
    ctx.count("inferred_nodes", len(need_inferred))
    ctx.count("relations_skipped_by_design", skipped)
    if any(n > 1 for n in edges.values()) or len({(a, b) for a, b, _k in edges}) < len(edges):
        ctx.count("graphs_with_parallel_edges")
    if any(a == b for a, b, _k in edges):
        ctx.count("graphs_with_self_loops")
        if any(a == b and a not in declared_names(elements) for a, b, _k in edges):
            ctx.count("graphs_with_self_loops_on_undeclared_names")
    # ---- inverse
    try:
        back = graph_to_prov(g)
        got = collections.Counter(strict.setlike_key(k) for k in strict.ordered_bundle(back))
        want = want_elem + kept
        if got != want or back.has_bundles():
            problems.append({"graph_to_prov": "content differs from the unified document restricted to elements and drawn relations",
                             "missing": strict.jsonable(list((want - got).elements())[:3]), "unexpected": strict.jsonable(list((got - want).elements())[:3])})
        ctx.count("inverse_conversions_compared")
    except Exception as e:
        problems.append("graph_to_prov raised %s: %s" % (type(e).__name__, str(e)[:200]))
    common.drain_monitors(ctx, idx, case)
    if problems:
        ctx.violation(idx, "graph conversion: %s" % str(problems[0])[:300], case, {"problems": strict.jsonable(problems[:4])})
    if sum(edges.values()):
        ctx.hashes.add(gen.case_hash(case["ops"]))
        ctx.sample({"program": case["ops"], "nodes": len(elements) + len(need_inferred), "edges": sum(edges.values())}, limit=2)


def run_case(ctx, idx):
    if idx % 3 == 0:
        with common.warnings_are_errors(ctx):
            judge(ctx, idx, make_case(ctx, idx))
        return
    judge(ctx, idx, make_case(ctx, idx))


def replay(ctx, rec):
    judge(ctx, rec["idx"], rec["payload"])


def floors(counters, tier, extra):
    out = []
    need = 200 if tier == "quick" else 2000
    for k in ("graphs_compared", "edges_compared", "inferred_nodes", "relations_skipped_by_design", "graphs_with_parallel_edges",
              "graphs_with_self_loops", "inverse_conversions_compared"):
        if counters.get(k, 0) < need:
            out.append("%s only %d" % (k, counters.get(k, 0)))
    out.extend(common.cov_floor(extra))
    return out


TECHNIQUE = "runtime monitoring: observed networkx graph (nodes, edges, inverse conversion) compared with a model over the unified snapshot"
LEVEL_TEXT = ("Exploration by runtime observation against a reference model: for generated bundle-free documents (multi-edges, self-loops, "
              "missing ends, identifier reuse, undeclared endpoints) g.nodes() and g.edges(data=True) of prov_to_graph are compared as multisets "
              "with a model computed from the strict snapshot of unified(): element nodes, exactly one inferred node of the inferred kind per "
              "undeclared endpoint, one edge first->second argument per relation with both ends; graph_to_prov(g) is compared with the unified "
              "document restricted to elements and drawn relations. One inferred node per undeclared name, whatever the roles it is "
              "referenced in (self-loops on undeclared names are tallied).")
LEVEL_NOTE = "Trusted: the model in this file (own endpoint-inference table) and the strict snapshot; bounded documents."
DESIGN_REF = "DESIGN.md section 6, C14"
