"""C15 -- DOT output is always valid Graphviz: one node per element, one path per relation.

Oracle: Graphviz itself (`dot -Tjson` must exit 0 with empty stderr) and a structural model computed from the strict
snapshot of each unified container and the option set: nodes by URL and cluster, edge paths between endpoint URLs (direct,
or through exactly one `point` node when n-ary or annotated), annotation nodes, and the *rendered* text spans (what Graphviz
actually draws) to decide that no label or value injected markup.
"""
import collections
import json
import random
import re
import subprocess

from pv import gen, monitors, strict, interp
from pv.checks import common
from pv.runner import case_rng

import prov.model as pm

ID = "C15"
LEVEL = "exploration"
ANCHORS = ["prov.dot:prov_to_dot"]
P = monitors.PROVNS
ELEMENT_TYPES = {P + "Entity", P + "Activity", P + "Agent"}
ELEMENT_FILL = {P + "Entity": "#FFFC87", P + "Activity": "#9FB1FC", P + "Agent": "#FED37F"}
REL_LABEL = {"Generation": "wasGeneratedBy", "Usage": "used", "Communication": "wasInformedBy", "Start": "wasStartedBy", "End": "wasEndedBy",
             "Invalidation": "wasInvalidatedBy", "Derivation": "wasDerivedFrom", "Attribution": "wasAttributedTo",
             "Association": "wasAssociatedWith", "Delegation": "actedOnBehalfOf", "Influence": "wasInfluencedBy", "Alternate": "alternateOf",
             "Specialization": "specializationOf", "Mention": "mentionOf", "Membership": "hadMember"}
DIRECTIONS = ["BT", "TB", "LR", "RL", "sideways", "", "T", "lr", None]    # everything but the four is invalid and means the default
ALL_OPTS = [dict(show_nary=a, use_labels=b, show_element_attributes=c, show_relation_attributes=d, direction=e)
            for a in (True, False) for b in (True, False) for c in (True, False) for d in (True, False) for e in DIRECTIONS]


def plan(tier, seed):
    return {
        "cases": 1500 if tier == "quick" else 12000,
        "hashseeds": [0] if tier == "quick" else [0, 1, 2, 3],
        "timeout_s": 400 if tier == "quick" else 3400,
        "rule": "case = a c15-profile program (labels and values with quotes, <, >, &, backslashes, newlines, non-ASCII) x option sets of "
                "show_nary x use_labels x show_element_attributes x show_relation_attributes x direction in {BT,TB,LR,RL,invalid} (quick: 3 "
                "sampled of 80 per document; thorough: 8 sampled, all 80 on every 25th document); one Graphviz process per rendering. "
                "distinct = hash of (program, options); non-trivial = >= 1 record and Graphviz output was parsed and compared",
        "assumptions": [
            "Graphviz (dot -Tjson) is the judge of validity and of what is rendered; its rendered text spans are compared with the literal "
            "text after removing white space (HTML-like labels fold white space)",
            "C0 control characters are outside the quantifier (not generated)",
            "relations lacking one of their first two endpoints are drawn towards blank nodes and are not judged",
            "when unified() raises, prov_to_dot documents that it draws the original records instead: the model follows that",
        ],
    }


def setup_worker(ctx):
    common.setup(ctx, ANCHORS)


def finish_worker(ctx):
    if ROUTER_RETRIES[0]:
        ctx.count("graphviz_spline_router_gave_up(rendered_again_without_routing)", ROUTER_RETRIES[0])
    common.finish(ctx)


def make_case(ctx, idx):
    r = case_rng(ctx.seed, ID, idx)
    ops = gen.Gen(r, gen.profile("c15", max_steps=10)).program()
    if ctx.tier == "thorough" and idx % 25 == 0:
        opts = list(range(len(ALL_OPTS)))
    else:
        opts = r.sample(range(len(ALL_OPTS)), 3 if ctx.tier == "quick" else 8)
    return {"ops": ops, "opts": opts}


def squash(s):
    return re.sub(r"\s+", "", s)


ROUTER_RETRIES = [0]


def render(dot_text):
    p = subprocess.run(["dot", "-Tjson"], input=dot_text.encode("utf-8"), capture_output=True, timeout=120)
    err = p.stderr.decode("utf-8", "replace")
    if any(s in err for s in ("triangulation failed", "libpath", "spline routing", "Unable to reclaim box space")):
        # Graphviz' spline router gives up on some layouts (very wide nodes): a limit of the renderer, not of the DOT text.  The text
        # is rendered again without edge routing; everything the check reads (nodes, clusters, edges, drawn text) is still produced.
        ROUTER_RETRIES[0] += 1
        p = subprocess.run(["dot", "-Tjson", "-Gsplines=false"], input=dot_text.encode("utf-8"), capture_output=True, timeout=120)
        err = p.stderr.decode("utf-8", "replace")
    return p.returncode, err, p.stdout


def drawn_elsewhere(text, cid, missing, nodes, members):
    """Every missing (URL, fill) is a node that the DOT text declares inside the cluster whose URL is cid and that Graphviz lists in
    another cluster."""
    import re
    blocks, cur, depth, url_of = {}, None, 0, {}
    for line in text.splitlines():
        m = re.match(r"\s*subgraph (cluster_\w+)", line)
        if m:
            cur, depth = m.group(1), 0
            blocks[cur] = []
        if cur is not None:
            depth += line.count("{") - line.count("}")
            blocks[cur].append(line)
            mu = re.match(r'\s*URL="?\\?"?([^";\\]+)', line.strip())
            if mu and cur not in url_of:
                url_of[cur] = mu.group(1)
            if depth <= 0 and "}" in line:
                cur = None
    mine = [b for b, u in url_of.items() if u == cid]
    if not mine or not overlapping_clusters(text):
        return False
    body = "\n".join(blocks[mine[0]])
    for url, fill in missing:
        cands = [n for n in nodes if n.get("URL") == url and n.get("fillcolor") == fill]
        if not cands:
            return False
        if not any(re.search(r"(?m)^\s*%s \[" % re.escape(n["name"]), body) and any(n["_gvid"] in m for c, m in members.items() if c != cid) for n in cands):
            return False
    return True


def overlapping_clusters(text):
    """Does some node id occur (as a node statement or an edge end) inside two different cluster blocks of the DOT text?"""
    import re
    seen = {}
    cur = None
    depth = 0
    for line in text.splitlines():
        m = re.match(r"\s*subgraph (cluster_\w+)", line)
        if m:
            cur, depth = m.group(1), 0
        if cur is not None:
            depth += line.count("{") - line.count("}")
            for nid in re.findall(r"(?<![\w.])([nb]\d+)(?![\w.])", line.split("[")[0]):
                seen.setdefault(nid, set()).add(cur)
            if depth <= 0 and "}" in line:
                cur = None
    return any(len(v) > 1 for v in seen.values())


def drawn_text(obj):
    return [op.get("text", "") for op in obj.get("_ldraw_", []) if op.get("op") == "T"]


def value_text(v):
    import datetime
    return v.isoformat() if isinstance(v, datetime.datetime) else str(v)


def expected(doc):
    """What must be drawn, from the unified containers (or the originals when unification fails)."""
    try:
        uni = doc.unified()
    except pm.ProvException:
        uni = doc
    conts = [(None, uni)] + [(b.identifier.uri, b) for b in uni.bundles]
    out = []
    for cid, c in conts:
        elements, relations = [], []
        for rec in c.get_records():
            t = rec.get_type().uri
            others = [(a, v) for a, vs in rec._attributes.items() for v in vs if a.uri not in monitors.REF_ATTRS]
            if t in ELEMENT_TYPES:
                labels = rec._attributes.get(pm.PROV_LABEL) or set()
                elements.append({"uri": rec.identifier.uri, "type": t, "ident": str(rec.identifier), "labels": [str(l) for l in labels],
                                 # a prov:label that is itself a name for the element's URI *is* the identifier: shown once
                                 "labels_naming_self": [str(l) for l in labels if getattr(l, "uri", None) == rec.identifier.uri],
                                 "others": [(str(a), value_text(v)) for a, v in others]})
            else:
                kind = t[len(P):]
                formals = gen.KINDS[kind][1]
                refs = []
                for f in formals:
                    if P + f in monitors.REF_ATTRS:
                        vs = [v for a, vs_ in rec._attributes.items() if a.uri == P + f for v in vs_]
                        refs.append((f, vs[0].uri if vs else None))
                relations.append({"kind": kind, "refs": refs, "others": [(str(a), value_text(v)) for a, v in others]})
        out.append({"id": cid, "label": str(c.identifier) if cid else None, "elements": elements, "relations": relations})
    return out


def check_render(doc, opt, ctx):
    from prov.dot import prov_to_dot
    problems = []
    try:
        # the options are given by keyword, in the documented positional order, or mixed (seeded by the options themselves)
        how = (opt["show_nary"] + 2 * opt["use_labels"] + 4 * opt["show_element_attributes"] + len(str(opt["direction"]))) % 3
        if how == 0:
            dot = prov_to_dot(doc, **opt)
        elif how == 1:
            dot = prov_to_dot(doc, opt["show_nary"], opt["use_labels"], opt["direction"], opt["show_element_attributes"], opt["show_relation_attributes"])
        else:
            dot = prov_to_dot(doc, opt["show_nary"], opt["use_labels"], opt["direction"], show_relation_attributes=opt["show_relation_attributes"],
                              show_element_attributes=opt["show_element_attributes"])
        ctx.count("call_form.%s" % ("keywords", "positional", "mixed")[how])
        text = dot.to_string()
    except Exception as e:
        return ["prov_to_dot raised %s: %s" % (type(e).__name__, str(e)[:200])], None
    rc, err, out = render(text)
    if rc != 0 and "trouble in init_rank" in err:
        # open finding KF-C15-1: a name used in several bundles is one node for prov.dot, written into several clusters; Graphviz'
        # ranking gives up on overlapping clusters once there are many.  Attributed only if the finding is open, a node really sits
        # in two clusters, and the *same text* is accepted as soon as the clusters are plain subgraphs (the neutraliser).
        import re
        from pv import findings
        flat = re.sub(r"subgraph cluster_", "subgraph plain_", text)
        rc2, err2, _out2 = render(flat)
        if "KF-C15-1" in findings.OPEN and rc2 == 0 and not err2.strip() and overlapping_clusters(text):
            ctx.known_finding("KF-C15-1", "Graphviz: trouble in init_rank (a node drawn in several clusters)", {"clusters": text.count("subgraph cluster_")})
            ctx.count("not_judged.structure_of_documents_hitting_KF-C15-1")
            return [], text
    if rc != 0 or err.strip():
        return ["Graphviz rejects or warns (exit %s): %s" % (rc, err.strip()[:300])], text
    try:
        j = json.loads(out)
    except ValueError as e:
        return ["dot -Tjson output unreadable: %s" % e], text
    want_dir = opt["direction"] if opt["direction"] in ("BT", "TB", "LR", "RL") else "BT"
    if j.get("rankdir") != want_dir:
        problems.append("rankdir is %r, expected %r" % (j.get("rankdir"), want_dir))
    objs = j.get("objects", [])
    edges = j.get("edges", [])
    by_id = {o["_gvid"]: o for o in objs}
    members = {}     # cluster URL -> set of node ids (Graphviz lists a node in every cluster that mentions it)
    clusters = {}
    for o in objs:
        if "nodes" in o or o.get("name", "").startswith("cluster"):
            clusters[o.get("URL")] = o
            members[o.get("URL")] = set(o.get("nodes", []))
    nodes = [o for o in objs if "nodes" not in o and not o.get("name", "").startswith("cluster")]
    out_edges = collections.defaultdict(list)
    for e in edges:
        out_edges[e["tail"]].append(e)
    exp = expected(doc)
    for cont in exp:
        cid = cont["id"]
        if cid is not None and (cont["elements"] or cont["relations"]) and cid not in clusters:
            problems.append("no cluster for bundle <%s>" % cid)
            continue
        # elements: exactly one element-styled node per element record, inside the container's cluster
        want = collections.Counter((e["uri"], ELEMENT_FILL[e["type"]]) for e in cont["elements"])
        got = collections.Counter()
        for n in nodes:
            inside = (n["_gvid"] in members.get(cid, ())) if cid is not None else True
            if inside and n.get("URL") and n.get("shape") not in ("point", "note") and n.get("fillcolor") in ELEMENT_FILL.values():
                got[(n["URL"], n["fillcolor"])] += 1
        if cid is None:
            # document level has no cluster: its element nodes are counted wherever Graphviz places them, net of the bundles' own
            for other in exp:
                if other["id"] is not None:
                    got -= collections.Counter((e["uri"], ELEMENT_FILL[e["type"]]) for e in other["elements"])
            got = +got
        else:
            got = got & want if not (want - got) else got   # nodes of other containers pulled into this cluster by an edge are not this bundle's elements
        if (want - got) or (cid is None and (got - want)):
            missing = list((want - got).elements())
            if cid is not None and not (cid is None and (got - want)) and missing and drawn_elsewhere(text, cid, missing, nodes, members):
                # open finding KF-C15-1, second symptom: prov.dot wrote the node inside this bundle's cluster, another bundle's edge
                # uses the same node, and Graphviz (a node cannot be in two clusters) shows it in the other one
                from pv import findings
                if "KF-C15-1" in findings.OPEN:
                    ctx.known_finding("KF-C15-1", "an element of <%s> is shown inside another bundle's cluster (its node is used by both)" % cid, {"missing": missing[:2]})
                    continue
            problems.append({"container": cid, "problem": "element nodes differ", "missing": missing[:3],
                             "unexpected": list((got - want).elements())[:3] if cid is None else []})
        for e in cont["elements"]:
            cands = [n for n in nodes if (cid is None or n["_gvid"] in members.get(cid, ())) and n.get("URL") == e["uri"]
                     and n.get("fillcolor") == ELEMENT_FILL[e["type"]]]
            if len(cands) > 1 and cid is None:
                # a bundle's edge may pull a document-level node into the bundle's cluster; prefer the nodes outside every cluster, unless
                # the document could not be unified and holds several records of this URI and kind (then any of the nodes may be this one)
                own = [n for n in cands if not any(n["_gvid"] in m for m in members.values())]
                if len(own) >= want[(e["uri"], ELEMENT_FILL[e["type"]])]:
                    cands = own or cands
            if not cands:
                continue
            label_ok = False
            for n in cands:
                shown = squash("".join(drawn_text(n)))
                if opt["use_labels"] and e["labels"]:
                    label_ok |= any(squash(l) in shown for l in e["labels"]) and squash(e["ident"]) in shown
                    label_ok |= any(shown == squash(l) for l in e["labels_naming_self"])
                else:
                    label_ok |= shown == squash(e["ident"])
            if not label_ok:
                problems.append({"problem": "node of <%s> does not render its %sidentifier literally" % (e["uri"], "label and " if opt["use_labels"] and e["labels"] else ""),
                                 "rendered": [drawn_text(n) for n in cands][:3], "labels": e["labels"], "identifier": e["ident"]})
            # annotation (several records may share URL and kind when the document cannot be unified: any of their nodes may carry it)
            ann_sets = [[by_id[x["tail"]] for x in edges if x["head"] == n["_gvid"] and by_id[x["tail"]].get("shape") == "note"] for n in cands]
            if any(len(a) > 1 for a in ann_sets):
                problems.append("a node of <%s> has several annotation nodes" % e["uri"])
            if opt["show_element_attributes"] and e["others"]:
                ok = False
                for anns in ann_sets:
                    if len(anns) == 1:
                        shown_a = squash("".join(drawn_text(anns[0])))
                        if all(squash(a) in shown_a and squash(v) in shown_a for a, v in e["others"]):
                            ok = True
                if not ok:
                    problems.append({"problem": "no annotation of <%s> shows all of %s literally" % (e["uri"], e["others"][:4]),
                                     "rendered": [drawn_text(a[0])[:12] for a in ann_sets if a][:2]})
                ctx.count("annotations_checked")
            elif not opt["show_element_attributes"] and any(ann_sets):
                problems.append("element <%s> is annotated although annotations are off" % e["uri"])
    # referenced names: every reference endpoint has some node
    urls = collections.Counter(n.get("URL") for n in nodes if n.get("URL"))
    for cont in exp:
        for rel in cont["relations"]:
            refs = rel["refs"]
            if len(refs) < 2:
                continue
            for f, u in refs[:2] + ([x for x in refs[2:]] if opt["show_nary"] else []):
                if u is not None and not urls.get(u):
                    problems.append("the referenced name <%s> has no node" % u)
    # relation paths: multiset of (tail URL, head URL, label, via point?)
    want_paths = collections.Counter()
    want_nary = collections.Counter()
    for cont in exp:
        for rel in cont["relations"]:
            refs = rel["refs"]
            if len(refs) < 2 or refs[0][1] is None or refs[1][1] is None:
                continue
            via = (len(refs) > 2 and opt["show_nary"]) or (opt["show_relation_attributes"] and bool(rel["others"]))
            want_paths[(refs[0][1], refs[1][1], REL_LABEL[rel["kind"]], via)] += 1
            if len(refs) > 2 and opt["show_nary"]:
                for f, u in refs[2:]:
                    if u is not None:
                        want_nary[(refs[0][1], refs[1][1], f, u)] += 1
    got_paths = collections.Counter()
    got_nary = collections.Counter()
    points_used = collections.Counter()
    for e in edges:
        t, h = by_id[e["tail"]], by_id[e["head"]]
        if t.get("shape") == "note":
            continue
        if t.get("URL") and h.get("URL") and t.get("shape") != "point" and h.get("shape") != "point":
            got_paths[(t["URL"], h["URL"], e.get("label"), False)] += 1
        elif t.get("URL") and h.get("shape") == "point" and not h.get("URL"):
            outs = [x for x in out_edges[h["_gvid"]]]
            seconds = [x for x in outs if "label" not in x or not x.get("label")]
            if len(seconds) != 1:
                if any(by_id[x["head"]].get("URL") for x in outs):
                    problems.append("blank node %s has %d unlabelled outgoing segments" % (h.get("name"), len(seconds)))
                continue
            head2 = by_id[seconds[0]["head"]]
            if head2.get("URL"):
                got_paths[(t["URL"], head2["URL"], e.get("label"), True)] += 1
                points_used[h["_gvid"]] += 1
                for x in outs:
                    if x.get("label") and by_id[x["head"]].get("URL"):
                        got_nary[(t["URL"], head2["URL"], x["label"], by_id[x["head"]]["URL"])] += 1
    if got_paths != want_paths:
        problems.append({"problem": "relation paths differ from the model", "missing": [list(x) for x in (want_paths - got_paths).elements()][:4],
                         "unexpected": [list(x) for x in (got_paths - want_paths).elements()][:4]})
    if got_nary != want_nary:
        problems.append({"problem": "n-ary segments differ from the model", "missing": [list(x) for x in (want_nary - got_nary).elements()][:4],
                         "unexpected": [list(x) for x in (got_nary - want_nary).elements()][:4]})
    if any(v > 1 for v in points_used.values()):
        problems.append("a blank node is shared by several relations")
    # relation annotations show every non-reference attribute
    if opt["show_relation_attributes"]:
        pool = [squash("".join(drawn_text(by_id[x["tail"]]))) for x in edges
                if by_id[x["tail"]].get("shape") == "note" and by_id[x["head"]].get("shape") == "point"]
        for cont in exp:
            for rel in cont["relations"]:
                if len(rel["refs"]) >= 2 and rel["others"]:
                    need = [squash(a) for a, _v in rel["others"]] + [squash(v) for _a, v in rel["others"]]
                    if not any(all(x in shown for x in need) for shown in pool):
                        problems.append({"problem": "no relation annotation shows all of %s" % rel["others"][:3]})
                        break
                    ctx.count("relation_annotations_checked")
    ctx.count("paths_compared", sum(want_paths.values()))
    ctx.count("paths_via_blank_node", sum(v for k, v in want_paths.items() if k[3]))
    ctx.count("nary_segments_compared", sum(want_nary.values()))
    ctx.count("element_nodes_compared", sum(len(c["elements"]) for c in exp))
    ctx.count("clusters_compared", len(exp) - 1)
    return problems, text


def judge(ctx, idx, case):
    ctx.hub.context = {"check": ID, "idx": idx}
    st = common.build(case["ops"])
    doc = st.doc
    common.tally_program(ctx, case["ops"], st)
    for oi in case["opts"]:
        opt = ALL_OPTS[oi]
        problems, text = check_render(doc, opt, ctx)
        ctx.count("renderings")
        for k in ("show_nary", "use_labels", "show_element_attributes", "show_relation_attributes"):
            ctx.count("opt.%s=%s" % (k, opt[k]))
        ctx.count("opt.direction=%s" % opt["direction"])
        if problems:
            ctx.violation(idx, "DOT (%s): %s" % (json.dumps(opt), str(problems[0])[:300]), {"ops": case["ops"], "opts": [oi]},
                          {"problems": strict.jsonable(problems[:4]), "dot": (text or "")[:6000]})
            break
        if common.nontrivial(doc):
            ctx.hashes.add(gen.case_hash([case["ops"], oi]))
    else:
        if idx % 4 == 2:
            # the document goes on living: an element (inside a bundle, if there is one) gets one more value and the document is drawn
            # again -- it has to be the drawing of the document as it is now
            conts = [b for b in doc.bundles if b._records] or [doc]
            els = [x for x in conts[0]._records if x.is_element()]
            if els:
                from prov.identifier import Namespace
                els[idx % len(els)].add_attributes([(Namespace("chg", "http://change.example/")["note"], "added after the first drawing (%d)" % idx)])
                oi = next((i for i in case["opts"] if ALL_OPTS[i]["show_element_attributes"]), None)
                opt = dict(ALL_OPTS[oi if oi is not None else case["opts"][0]], show_element_attributes=True)
                problems, text = check_render(doc, opt, ctx)
                ctx.count("second_drawing_after_a_change")
                if problems:
                    ctx.violation(idx, "DOT (%s), drawn again after a value was added: %s" % (json.dumps(opt), str(problems[0])[:300]),
                                  {"ops": case["ops"], "opts": case["opts"]}, {"problems": strict.jsonable(problems[:4]), "dot": (text or "")[:6000]})
    ctx.sample({"program": case["ops"], "options": [ALL_OPTS[i] for i in case["opts"][:3]]}, limit=1)
    common.drain_monitors(ctx, idx, case)


def run_case(ctx, idx):
    judge(ctx, idx, make_case(ctx, idx))


def replay(ctx, rec):
    judge(ctx, rec["idx"], rec["payload"])


def floors(counters, tier, extra):
    out = []
    need = 100 if tier == "quick" else 1000
    if counters.get("renderings", 0) < (3000 if tier == "quick" else 30000):
        out.append("only %d renderings" % counters.get("renderings", 0))
    for k in ("paths_compared", "paths_via_blank_node", "nary_segments_compared", "element_nodes_compared", "clusters_compared",
              "annotations_checked", "relation_annotations_checked", "opt.direction=sideways", "opt.use_labels=True", "second_drawing_after_a_change"):
        if counters.get(k, 0) < (need if k != "second_drawing_after_a_change" else need // 2):
            out.append("%s only %d" % (k, counters.get(k, 0)))
    out.extend(common.cov_floor(extra))
    return out


TECHNIQUE = "runtime monitoring: emitted DOT judged by Graphviz itself (dot -Tjson) and compared, incl. rendered text, with a structural model"
LEVEL_TEXT = ("Exploration by runtime observation with an external oracle: the DOT text of generated documents under sampled (thorough: also "
              "all 80) option combinations is given to Graphviz, which must accept it without warning; its JSON output (nodes with URL, shape, "
              "fill, cluster membership; edges; rendered text spans) is compared with a model from the strict content of each unified container: "
              "one element node per element record in the right cluster, a node for every referenced name, one path per relation with both "
              "ends in the right direction (via exactly one blank node when n-ary or annotated), n-ary segments, annotations showing every "
              "non-reference attribute, and rendered text equal to the literal text (no markup injected). A quarter of the documents get one more value after their drawings and are drawn again.")
LEVEL_NOTE = "Trusted: Graphviz 2.43 as renderer and parser, the model in this file. One process per rendering bounds the volume."
DESIGN_REF = "DESIGN.md section 4.2 (DOT reader) and section 6, C15"
