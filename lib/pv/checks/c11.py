"""C11 -- reading foreign PROV-JSON / PROV-XML is stable under re-serialisation.

Workloads: (i) texts from the specification-driven generator pv.foreign (dialects the library never writes), (ii) single-point
mutations of the shipped ProvToolbox JSON and PROV-XML corpus files, (iii) the unmodified corpus files.
Observed per text t:  load(t) raises a library error or yields d;  d equals what the independent reader makes of t (never
drops / invents), modulo the documented normalisations and Python set semantics;  write(d) -> load gives d again in the same
format, and across formats when d is expressible there.
"""
import collections
import glob
import json
import os
import random
import re

import prov
from pv import env, foreign, gen, strict
from pv.checks import common, c02
from pv.readers import provjson as jr, provxml as xr
from pv.readers.common import PROV, ReaderError
from pv.runner import case_rng

import prov.model as pm

ID = "C11"
LEVEL = "exploration"
ANCHORS = ["prov.serializers.provjson:decode_json_document", "prov.serializers.provjson:decode_json_container",
           "prov.serializers.provjson:decode_json_representation", "prov.serializers.provxml:ProvXMLSerializer.deserialize_subtree",
           "prov.serializers.provxml:_extract_attributes", "prov.serializers.provxml:xml_qname_to_QualifiedName",
           "prov.model:ProvRecord.add_attributes", "prov.model:ProvRecord._auto_literal_conversion"]
JSON_MUTATIONS = ["value_kind", "wrap_array", "unwrap_array", "reorder_keys", "rename_prefix", "copy_prefix_into_bundle", "record_array"]
XML_MUTATIONS = ["rename_prefix", "add_xsd_string_type", "none"]


def plan(tier, seed):
    return {
        "cases": 10000 if tier == "quick" else 200000,
        "hashseeds": [0] if tier == "quick" else [0, 1, 2, 3],
        "timeout_s": 400 if tier == "quick" else 3400,
        "rule": "case = a text: 35% generated foreign PROV-JSON, 25% generated foreign PROV-XML, 25% a single-point mutation of a shipped JSON "
                "corpus file, 10% of an XML corpus file, 5% an unmodified corpus file. distinct = hash of the text; non-trivial = the "
                "independent reader found >= 1 record and the library's reading was compared with it",
        "assumptions": [
            "what a text means is decided by the independent readers (pv/readers); values are compared as sets with Python value equality "
            "folded in, because the library holds attribute values in sets (listing a value twice, or 1 next to true, is not 'dropping')",
            "documented normalisations: a PROV-JSON membership listing several entities becomes one membership per member (generated "
            "without identifier/attributes so that the normalisation is exact); an XML subtype element becomes base kind + prov:type",
            "a text the library refuses with a prov.Error is within the property; <prov:other> and comments are not generated as content",
            "same-format stability of XML and JSON->XML transfer are judged only when the loaded document is inside the C02 input space; "
            "XML->JSON transfer only when no formal attribute is multi-valued (C05's carve-out)",
        ],
    }


def setup_worker(ctx):
    common.setup(ctx, ANCHORS)
    base = os.path.join(env.PROV_SRC, "prov", "tests")
    ctx.jfiles = sorted(glob.glob(os.path.join(base, "json", "*.json")))
    ctx.xfiles = sorted(glob.glob(os.path.join(base, "xml", "*.xml")))
    ctx.files_reached = set()
    ctx.jbundle_files = [f for f in ctx.jfiles if '"bundle"' in open(f, encoding="utf-8").read()]


def finish_worker(ctx):
    common.finish(ctx)
    ctx.extra["distinct_sets"] = {"corpus_files_reached": sorted(ctx.files_reached)}


# ---- JSON corpus mutations ---------------------------------------------------------------------------
RECORD_KEYS = None


def _record_maps(top):
    """Yield (container, kind name, record map) for document and bundles."""
    conts = [top] + [b for b in top.get("bundle", {}).values() if isinstance(b, dict)]
    for c in conts:
        for k, v in c.items():
            if k not in ("prefix", "bundle") and isinstance(v, dict):
                yield c, k, v


def mutate_json(text, op, r):
    top = json.loads(text)
    if not isinstance(top, dict):
        return None
    recs = []
    for c, k, m in _record_maps(top):
        for rid, body in m.items():
            for b in (body if isinstance(body, list) else [body]):
                if isinstance(b, dict):
                    recs.append((c, k, m, rid, b))
    if op == "reorder_keys":
        def shuffle(o):
            if isinstance(o, dict):
                items = [(k, shuffle(v)) for k, v in o.items()]
                r.shuffle(items)
                return dict(items)
            if isinstance(o, list):
                return [shuffle(x) for x in o]
            return o
        return json.dumps(shuffle(top))
    if op == "record_array":
        cands = [(m, rid) for c, k, m, rid, b in recs if isinstance(m[rid], dict)]
        if not cands:
            return None
        m, rid = r.choice(cands)
        m[rid] = [m[rid]]
        return json.dumps(top)
    if op in ("value_kind", "wrap_array", "unwrap_array"):
        slots = []
        for c, k, m, rid, b in recs:
            for an, av in b.items():
                formal = an.startswith("prov:") and an[5:] in jr.ALL_FORMALS
                slots.append((b, an, av, formal))
        r.shuffle(slots)
        for b, an, av, formal in slots:
            if op == "wrap_array" and not isinstance(av, list):
                b[an] = [av]
                return json.dumps(top)
            if op == "unwrap_array" and isinstance(av, list) and len(av) == 1:
                b[an] = av[0]
                return json.dumps(top)
            if op == "value_kind" and not formal and not isinstance(av, list):
                if isinstance(av, bool):
                    b[an] = {"$": "true" if av else "false", "type": "xsd:boolean"}
                elif isinstance(av, int):
                    b[an] = {"$": str(av), "type": "xsd:int"}
                elif isinstance(av, str):
                    b[an] = {"$": av, "type": "xsd:string"}
                elif isinstance(av, dict) and av.get("type") == "xsd:string":
                    b[an] = av["$"]
                elif isinstance(av, dict) and av.get("type") in ("xsd:int", "xsd:long") and str(av["$"]).lstrip("-").isdigit():
                    b[an] = int(av["$"])
                elif isinstance(av, dict) and av.get("type") == "xsd:boolean" and str(av["$"]).lower() in ("true", "false"):
                    b[an] = str(av["$"]).lower() == "true"
                else:
                    continue
                return json.dumps(top)
        return None
    if op == "copy_prefix_into_bundle":
        # move a prefix declaration between document and bundle (both directions keep the meaning of every name)
        pf = top.get("prefix") or {}
        bs = [b for b in top.get("bundle", {}).values() if isinstance(b, dict)]
        if not pf or not bs:
            return None
        b = r.choice(bs)
        redundant = [p for p, u in b.get("prefix", {}).items() if pf.get(p) == u]
        missing = [p for p in pf if p not in b.get("prefix", {})]
        if redundant and (not missing or r.random() < 0.5):
            del b["prefix"][r.choice(sorted(redundant))]      # declared at document level only
            if not b["prefix"]:
                del b["prefix"]
        elif missing:
            p = r.choice(sorted(missing))
            b.setdefault("prefix", {})[p] = pf[p]              # re-declared at bundle level
        else:
            return None
        return json.dumps(top)
    if op == "rename_prefix":
        pf = top.get("prefix") or {}
        cands = [p for p in pf if p != "default"]
        if not cands:
            return None
        old = r.choice(sorted(cands))
        new = old + "z"
        allp = set(pf)
        for b in top.get("bundle", {}).values():
            if isinstance(b, dict):
                allp |= set(b.get("prefix", {}))
                if old in b.get("prefix", {}):
                    return None   # re-declared in a bundle: a consistent rename would have to follow scopes; skip
        if new in allp:
            return None

        def rn(s):
            return new + s[len(old):] if isinstance(s, str) and s.startswith(old + ":") else s

        def walk_container(c):
            out = {}
            for k, v in c.items():
                if k == "prefix":
                    out[k] = {(new if p == old else p): u for p, u in v.items()}
                elif k == "bundle":
                    out[k] = {rn(bid): walk_container(b) for bid, b in v.items()}
                else:
                    out[k] = {rn(rid): ([walk_rec(x) for x in body] if isinstance(body, list) else walk_rec(body)) for rid, body in v.items()}
            return out

        def walk_val(an, v):
            if isinstance(v, list):
                return [walk_val(an, x) for x in v]
            if isinstance(v, dict):
                o = dict(v)
                if "type" in o:
                    if o["type"] == "prov:QUALIFIED_NAME":
                        o["$"] = rn(o["$"])
                    o["type"] = rn(o["type"])
                return o
            if an.startswith("prov:") and an[5:] in jr.REF_FORMALS:
                return rn(v)
            return v

        def walk_rec(b):
            return {rn(an): walk_val(an, av) for an, av in b.items()}

        return json.dumps(walk_container(top))
    raise AssertionError(op)


def mutate_xml(data, op, r):
    text = data.decode("utf-8")
    if op == "none":
        return text
    if op == "rename_prefix":
        m = re.findall(r'xmlns:([A-Za-z_][\w.\-]*)="', text)
        cands = [p for p in set(m) if p not in ("prov", "xsi", "xsd", "xml") and m.count(p) == 1]
        if not cands:
            return None
        old = r.choice(sorted(cands))
        new = old + "z"
        if re.search(r"\b%s:" % re.escape(new), text):
            return None
        t = text.replace("xmlns:%s=" % old, "xmlns:%s=" % new)
        t = re.sub(r"(</?)%s:" % re.escape(old), r"\g<1>%s:" % new, t)
        t = re.sub(r'(=")%s:' % re.escape(old), r"\g<1>%s:" % new, t)
        t = re.sub(r"(=')%s:" % re.escape(old), r"\g<1>%s:" % new, t)
        t = re.sub(r'(xsi:type="xsd:QName"[^>]*>\s*)%s:' % re.escape(old), r"\g<1>%s:" % new, t)
        return t
    if op == "add_xsd_string_type":
        # an untyped, attribute-less, non-PROV child element holding text gets xsi:type="xsd:string"
        cands = list(re.finditer(r"<((?!prov:)[A-Za-z_][\w.\-]*:[\w.\-]+)>([^<]+)</\1>", text))
        if not cands or 'xmlns:xsi="' not in text or 'xmlns:xsd="' not in text:
            return None
        m = r.choice(cands)
        return text[:m.start()] + '<%s xsi:type="xsd:string">%s</%s>' % (m.group(1), m.group(2), m.group(1)) + text[m.end():]
    raise AssertionError(op)


# ---- case generation -------------------------------------------------------------------------------------
def make_case(ctx, idx):
    r = case_rng(ctx.seed, ID, idx)
    x = r.random()
    if x < 0.35:
        d = foreign.abstract_document(r)
        w = foreign.JsonWriter(r, d)
        return {"mode": "gen_json", "fmt": "json", "text": w.text(), "features": sorted(w.features)}
    if x < 0.60:
        d = foreign.abstract_document(r, xml=True)
        w = foreign.XmlWriter(r, d)
        return {"mode": "gen_xml", "fmt": "xml", "text": w.text(), "features": sorted(w.features)}
    if x < 0.85 and ctx.jfiles:
        f = r.choice(ctx.jfiles)
        op = r.choice(JSON_MUTATIONS)
        if op == "copy_prefix_into_bundle" and ctx.jbundle_files:
            f = r.choice(ctx.jbundle_files)
        try:
            t = mutate_json(open(f, encoding="utf-8").read(), op, r)
        except Exception:
            t = None
        return {"mode": "mut_json", "fmt": "json", "text": t, "file": os.path.basename(f), "op": op}
    if x < 0.95 and ctx.xfiles:
        f = r.choice(ctx.xfiles)
        op = r.choice(XML_MUTATIONS)
        try:
            t = mutate_xml(open(f, "rb").read(), op, r)
        except Exception:
            t = None
        return {"mode": "mut_xml", "fmt": "xml", "text": t, "file": os.path.basename(f), "op": op}
    f = r.choice(ctx.jfiles + ctx.xfiles)
    fmt = "xml" if f.endswith(".xml") else "json"
    return {"mode": "corpus", "fmt": fmt, "text": open(f, "rb").read().decode("utf-8"), "file": os.path.basename(f), "op": "none"}


# ---- judging ---------------------------------------------------------------------------------------------
def setview(snap):
    """Per bundle: multiset of records whose attribute pairs are folded to sets under Python value equality."""
    return {b: collections.Counter(strict.collapse_rec_key(k) for k in c.elements()) for b, c in snap.items()}


def normalise_reader(snap, fmt, notes=None):
    """The documented PROV-JSON normalisation: a membership listing several entities becomes the record itself with the first
    listed member (keeping identifier and other attributes) plus one anonymous, bare membership per further member."""
    if fmt != "json":
        return snap
    order = (notes or {}).get("membership_order", {})
    out = {}
    for b, c in snap.items():
        nc = collections.Counter()
        for rk, n in c.items():
            t, i, attrs = rk
            nents = sum(m for (a, v), m in attrs if a == PROV + "entity")
            if t == PROV + "Membership" and nents > 1:
                rest = [((a, v), m) for (a, v), m in attrs if a != PROV + "entity"]
                col = [x for x in rest if x[0][0] == PROV + "collection"]
                listings = order.get(b, {}).get(rk) or []
                for k in range(n):
                    members = listings[k] if k < len(listings) else [v[1] for (a, v), m in attrs if a == PROV + "entity" for _ in range(m)]
                    first, others = members[0], members[1:]
                    nc[(t, i, tuple(sorted(rest + [((PROV + "entity", ("qn", first)), 1)], key=repr)))] += 1
                    for e in others:
                        nc[(t, None, tuple(sorted(col + [((PROV + "entity", ("qn", e)), 1)], key=repr)))] += 1
            else:
                nc[rk] += n
        out[b] = nc
    return out


def multi_valued_formal(doc):
    from pv import monitors
    for b in [doc] + list(doc.bundles):
        for rec in b._records:
            for a, vs in rec._attributes.items():
                if a.uri in monitors.FORMAL and len(vs) > 1:
                    return True
    return False


def load(text, fmt):
    return pm.ProvDocument.deserialize(content=text, format=fmt)


def problems_of(ctx, case):
    fmt, text = case["fmt"], case["text"]
    try:
        rsnap, notes = (jr if fmt == "json" else xr).read(text)
        reader_ok = True
    except ReaderError as e:
        reader_ok, rsnap, notes = False, None, {"error": str(e)}
    except Exception as e:
        return ["HARNESS: independent reader crashed: %s %s" % (type(e).__name__, e)], "harness"
    try:
        d = load(text, fmt)
    except prov.Error as e:
        ctx.count("load.refused_with_library_error.%s" % type(e).__name__)
        return [], "refused"
    except Exception as e:
        if not reader_ok:
            ctx.count("load.raised_on_text_the_reader_also_rejects")
            return [], "ill-formed"
        return ["load raised %s (not a library error): %s" % (type(e).__name__, str(e)[:200])], "judged"
    if not reader_ok:
        ctx.count("reader_rejected_but_library_loaded")
        return [], "ill-formed"
    if notes.get("ambiguous_bundle_ids"):
        ctx.count("skipped.ambiguous_bundle_id")
        return [], "ambiguous"
    problems = []
    lib = strict.strict(d)
    want = setview(normalise_reader(rsnap, fmt, notes))
    got = setview(lib)
    if want != got:
        problems.append({"clause": "never drops or invents", "diff_reader_vs_library": strict.diff(want, got)})
        return problems, "judged"
    ctx.count("compared_with_independent_reader")
    import zlib
    if zlib.crc32(text.encode("utf-8", "replace")) % 2 == 0:
        # what one does with a loaded document before writing it again: look at it (printing, accessors, hashing, PROV-N)
        for b in [d] + list(d.bundles):
            for rec in b.get_records():
                repr(rec), rec.args, rec.formal_attributes, rec.extra_attributes, rec.label, rec.value, hash(rec)
                rec.get_attribute("prov:type"), rec.get_asserted_types()
        d.get_provn()
        ctx.count("loaded_documents_looked_at_before_writing")
        if strict.strict(d) != lib:
            problems.append({"clause": "looking at the loaded document changed it", "diff": strict.diff(lib, strict.strict(d))})
            return problems, "judged"
    # same-format stability
    in_xml_space = c02.in_space(d) is None
    if fmt == "json" or in_xml_space:
        try:
            d2 = load(d.serialize(format=fmt), fmt)
            if strict.strict(d2) != lib:
                problems.append({"clause": "write(d) -> load gives d again (%s)" % fmt, "diff": strict.diff(lib, strict.strict(d2))})
            ctx.count("stability.same_format.%s" % fmt)
        except Exception as e:
            problems.append({"clause": "write(d) -> load (%s) raised %s: %s" % (fmt, type(e).__name__, str(e)[:200])})
    else:
        ctx.count("stability.skipped_outside_xml_space")
    # across formats
    other = "xml" if fmt == "json" else "json"
    if (other == "xml" and in_xml_space) or (other == "json" and not multi_valued_formal(d)):
        try:
            d3 = load(d.serialize(format=other), other)
            if strict.strict(d3) != lib:
                problems.append({"clause": "%s text -> d -> %s -> d'" % (fmt, other), "diff": strict.diff(lib, strict.strict(d3))})
            ctx.count("stability.across.%s_to_%s" % (fmt, other))
        except Exception as e:
            problems.append({"clause": "%s text -> d -> %s raised %s: %s" % (fmt, other, type(e).__name__, str(e)[:200])})
    return problems, "judged" if strict.total_records(lib) else "empty"


def judge(ctx, idx, case):
    ctx.hub.context = {"check": ID, "idx": idx}
    if case["text"] is None:
        ctx.count("mutation.not_applicable.%s" % case.get("op"))
        return
    ctx.count("texts.%s" % case["mode"])
    for f in case.get("features", []):
        ctx.count("feature.%s.%s" % (case["fmt"], f))
    if case.get("op"):
        ctx.count("mutation.%s.%s" % (case["fmt"], case["op"]))
    if case.get("file"):
        ctx.files_reached.add(case["file"])
    problems, status = problems_of(ctx, case)
    ctx.count("status.%s" % status)
    common.drain_monitors(ctx, idx, case)
    if problems and status == "harness":
        raise RuntimeError(problems[0])
    if problems:
        ctx.violation(idx, "foreign %s text (%s): %s" % (case["fmt"], case["mode"], str(problems[0])[:300]), case, {"problems": strict.jsonable(problems[:3])})
    if status == "judged":
        ctx.hashes.add(gen.case_hash(case["text"]))
        ctx.sample({"mode": case["mode"], "features": case.get("features"), "file": case.get("file"), "op": case.get("op"), "text": case["text"][:1200]}, limit=3)


def run_case(ctx, idx):
    judge(ctx, idx, make_case(ctx, idx))


def replay(ctx, rec):
    ctx.files_reached = set()
    judge(ctx, rec["idx"], rec["payload"])


def floors(counters, tier, extra):
    out = []
    need = 100 if tier == "quick" else 1000
    for k in ("texts.gen_json", "texts.gen_xml", "texts.mut_json", "texts.mut_xml", "texts.corpus", "compared_with_independent_reader",
              "stability.same_format.json", "stability.same_format.xml", "stability.across.json_to_xml", "stability.across.xml_to_json"):
        if counters.get(k, 0) < need:
            out.append("%s only %d" % (k, counters.get(k, 0)))
    for f in ("json.multi_entity_membership", "json.singleton_value_array", "json.formal_singleton_array", "json.record_array",
              "json.singleton_record_array", "json.bundle_prefix_block", "json.redeclared_prefix", "json.default_namespace",
              "json.typed_number_as_string", "json.lang_with_type", "xml.subtype_element", "xml.xsi_type_on_record_element",
              "xml.multi_entity_membership", "xml.prefix_declared_on_value_element", "xml.bundle_level_declaration", "xml.default_namespace",
              "xml.empty_element"):
        if counters.get("feature." + f, 0) < need // 2:
            out.append("dialect feature %s in only %d texts" % (f, counters.get("feature." + f, 0)))
    for op in JSON_MUTATIONS:
        # unwrap_array needs a corpus file with a one-element array as attribute value: 0-2 of the files drawn per run (the dialect
        # generator produces that feature on its own, see feature.json.singleton_value_array); value_kind applies to about a fifth
        floor = 0 if op == "unwrap_array" else (need // 4 if op == "value_kind" else need // 2)
        if counters.get("mutation.json." + op, 0) < floor:
            out.append("JSON mutation %s applied only %d times" % (op, counters.get("mutation.json." + op, 0)))
    for op in XML_MUTATIONS:
        if counters.get("mutation.xml." + op, 0) < need // 4:
            out.append("XML mutation %s applied only %d times" % (op, counters.get("mutation.xml." + op, 0)))
    out.extend(common.cov_floor(extra))
    return out


TECHNIQUE = "runtime monitoring: foreign-dialect texts (spec-driven generator + corpus mutations) loaded by the library and judged against independent readers and re-serialisation"
LEVEL_TEXT = ("Exploration by runtime observation: thousands of well-formed PROV-JSON / PROV-XML texts in dialects the library never writes "
              "(generated from an abstract document by a specification-driven writer, or single-point mutations of the 398 + 45 shipped corpus "
              "files) are loaded; a non-library exception is a violation; the loaded document is compared with the independent reader's reading "
              "of the same text (nothing dropped or invented, modulo the two documented normalisations) and must survive write -> load in the "
              "same format and across formats.")
LEVEL_NOTE = ("Trusted: the independent readers and the foreign writers (a text our own reader rejects is counted as ill-formed, never judged). "
              "Stability across formats is judged inside the C02 / C05 boundaries stated in the evidence assumptions.")
DESIGN_REF = "DESIGN.md section 6, C11"
