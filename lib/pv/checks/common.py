"""Shared plumbing of the check modules: monitors on in every workload, coverage, tallies."""
import collections
import os

from pv import cover, gen, interp, monitors, strict
from pv.runner import case_rng

import prov.model as pm

TIERS = ("quick", "thorough")


def setup(ctx, anchors=(), idx_sample_every=1):
    """Attach the background monitors (NS, NF, PURE, IDX) and line coverage of the anchored functions."""
    hub = monitors.attach_all(idx_sample_every=idx_sample_every)
    ctx.hub = hub
    ctx.cov = None
    if anchors:
        try:
            ctx.cov = cover.anchored(anchors)
            ctx.cov.start()
        except Exception as e:  # coverage is evidence, never a verdict
            ctx.count("cov_unavailable:%s" % type(e).__name__)
    return hub


def finish(ctx):
    hub = ctx.hub
    if HISTORY["ghosts"]:
        ctx.counters["documents_preceded_by_a_dead_twin_and_failed_calls"] += HISTORY["ghosts"]
    if ELSEWHERE["built"] or ELSEWHERE["failed"]:
        ctx.counters["documents_built_in_another_process_and_unpickled"] += ELSEWHERE["built"]
        ctx.counters["documents_built_in_another_process.failed"] += ELSEWHERE["failed"]
    for k, v in hub.counts.items():
        ctx.counters["mon." + k] += v
    if ctx.cov is not None:
        rep = ctx.cov.report()
        ctx.extra["cov_hit"] = {k: v["lines_hit"] for k, v in rep.items()}
        ctx.extra["cov_all"] = {k: sorted(set(v["lines_hit"]) | set(v["lines_missed"])) for k, v in rep.items()}


def drain_monitors(ctx, idx, payload, own=(), background=True):
    """Turn what the monitors reported during this case into violations of *their* property.

    A check reports the monitors that decide its own property (own=...) as violations of that
    property.  Reports of the other background monitors are violations of C03/C05/C13/C18 observed
    in this workload: they are counted and sampled in the evidence of this check (key
    background_monitor_reports) and fail this check as well, labelled with their property, because a
    monitor that fires is a real observation wherever it fires."""
    out = []
    for mon, what, wit in ctx.hub.drain():
        prop = {"NS": "C03", "NF": "C05", "IDX": "C18", "PURE": "C13"}[mon]
        ctx.count("monitor_reports.%s" % mon)
        out.append((mon, prop, what, wit))
    return out


import contextlib


@contextlib.contextmanager
def warnings_are_errors(ctx=None):
    """The environment of a test-suite run with `-W error` / pytest's filterwarnings=error: every warning the library issues is
    raised (deprecation notices of third-party packages are left alone).  Nothing in the claimed spaces warns on the unchanged tree."""
    import warnings
    with warnings.catch_warnings():
        warnings.simplefilter("error")
        for cat in (DeprecationWarning, PendingDeprecationWarning, ResourceWarning, ImportWarning):
            warnings.simplefilter("ignore", cat)
        if ctx is not None:
            ctx.count("cases_run_with_warnings_as_errors")
        yield


def text_file_roundtrip(doc, fmt, **kw):
    """serialize() to a *text file opened by the caller in a non-UTF-8 codec* (latin-1 / cp1252 when the text fits, else utf-16),
    closed, re-opened with the same codec and read: a text stream takes text, whatever bytes its owner turns it into."""
    import tempfile
    probe = doc.serialize(format=fmt, **kw)
    enc = "utf-16"
    for cand in ("latin-1", "cp1252"):
        try:
            probe.encode(cand)
            enc = cand
            break
        except UnicodeEncodeError:
            pass
    fd, path = tempfile.mkstemp(prefix="pv-text-", suffix="." + fmt, dir=os.environ.get("TMPDIR"))
    os.close(fd)
    try:
        with open(path, "w", encoding=enc, newline="") as f:
            doc.serialize(f, format=fmt, **kw)
        with open(path, "r", encoding=enc, newline="") as f:
            return f.read(), enc
    finally:
        try:
            os.remove(path)
        except OSError:
            pass


ELSEWHERE = {"one_in": 0, "built": 0, "failed": 0}     # set by the checks that accept documents built in another process
_CHILD = r"""
import sys, json, pickle
sys.path.insert(0, %(lib)r)
import pv
from pv import interp
st = interp.run(json.load(sys.stdin))
sys.stdout.buffer.write(pickle.dumps(st))
"""


def build_elsewhere(ops):
    """The same program run by another interpreter process (its own string-hash seed) and handed over by pickle: documents travel
    between processes (multiprocessing, caches, job queues), and whatever an object remembers about itself travels with it."""
    import json
    import pickle
    import subprocess
    import zlib
    from pv import env
    e = dict(os.environ)
    e["PYTHONHASHSEED"] = str(1 + zlib.crc32(gen.case_hash(ops).encode()) % 4000)
    e["PROV_SRC"] = env.PROV_SRC
    try:
        p = subprocess.run([env.PYTHON, "-c", _CHILD % {"lib": os.path.join(env.VERIF, "lib")}], input=json.dumps(ops).encode(), env=e,
                           capture_output=True, timeout=120)
        if p.returncode != 0:
            ELSEWHERE["failed"] += 1
            return None
        st = pickle.loads(p.stdout)
        ELSEWHERE["built"] += 1
        return st
    except Exception:
        ELSEWHERE["failed"] += 1
        return None


HISTORY = {"ghosts": 0, "failed_call_preludes": 0, "one_in": 12}


def ghost_ops(ops):
    """The same program -- same identifiers, same shape, same record counts -- with other attribute values."""
    import copy
    out = copy.deepcopy(ops)

    def walk(x):
        if isinstance(x, dict):
            if x.get("k") == "str" and isinstance(x.get("v"), str):
                x["v"] = x["v"] + "~ghost"
            elif x.get("k") == "int" and isinstance(x.get("v"), int):
                x["v"] = x["v"] + 1
            for v in x.values():
                walk(v)
        elif isinstance(x, list):
            for v in x:
                walk(v)

    walk(out)
    return out


def exercise(doc):
    """Everything a long-running service does with a document before dropping it (each call may raise: not judged here)."""
    import io
    calls = [lambda: doc.unified(), lambda: doc.flattened(), lambda: doc.get_provn(), lambda: doc.serialize(format="json"),
             lambda: doc.serialize(format="xml"), lambda: doc.serialize(format="rdf"), lambda: doc == doc, lambda: [hash(r) for r in doc.get_records()],
             lambda: [doc.get_record(r.identifier) for r in doc.get_records()[:5] if r.identifier is not None],
             lambda: pm.ProvDocument.deserialize(content=doc.serialize(format="json"), format="json"),
             lambda: pm.ProvDocument.deserialize(content=doc.serialize(format="xml"), format="xml")]
    try:
        from prov.dot import prov_to_dot
        from prov.graph import prov_to_graph
        calls += [lambda: prov_to_dot(doc), lambda: prov_to_graph(doc)]
    except Exception:
        pass
    for c in calls:
        try:
            c()
        except Exception:
            pass


FAILING_XML = (b'<?xml version="1.0" encoding="UTF-8"?><prov:document xmlns:prov="http://www.w3.org/ns/prov#" xmlns:ex="http://ghost.example/">'
               b'<prov:bundleContent prov:id="ex:ghost-b1"><prov:entity/><prov:entity prov:id="undeclared:x"/></prov:bundleContent>'
               b'<prov:bundleContent prov:id="ex:ghost-b2"><prov:entity prov:id="ex:ghost-e"/></prov:bundleContent></prov:document>')


def failed_calls_prelude():
    """Calls that fail, as they do now and then in a long-running process: a text that cannot be read, an export whose destination is
    closed, a stream whose format cannot be detected.  Whatever they leave behind must not reach the next, unrelated document."""
    import io
    import prov
    hub = monitors.HUB
    hub.quiet += 1
    try:
        for f in (lambda: pm.ProvDocument.deserialize(io.BytesIO(FAILING_XML), format="xml"),
                  lambda: pm.ProvDocument.deserialize(content='{"entity": {"ex:e": {"ex:a": {"$": "1", "type": "undeclared:t"}}}, "bundle": {"ex:b": 5}}', format="json"),
                  lambda: prov.read(io.StringIO("document\n  prefix ex <http://ghost.example/>\n  entity(ex:ghost)\nendDocument\n")),
                  lambda: prov.read(io.BytesIO(b"\x00\x01 not a provenance document")),
                  lambda: _export_to_closed_stream()):
            try:
                f()
            except Exception:
                pass
    finally:
        hub.quiet -= 1
    HISTORY["failed_call_preludes"] += 1


def _export_to_closed_stream():
    import io
    d = pm.ProvDocument()
    d.add_namespace("gh", "http://ghost.example/")
    b = d.bundle("gh:ghost-bundle")
    b.entity("gh:ghost-entity", {"gh:k": "ghost"})
    d.entity("gh:ghost-top")
    for fmt in ("rdf", "json", "xml", "provn"):
        s = io.BytesIO()
        s.close()
        try:
            d.serialize(s, format=fmt)
        except Exception:
            pass


def build(ops, observed=None):
    """Run a program.  observed=None: decided from the program itself (half of the programs are built while read-only
    observations -- accessors, printing, ==/hash, look-ups, listings -- are interleaved with the construction)."""
    import random
    h = gen.case_hash(ops)
    if HISTORY["one_in"] and int(h[8:12], 16) % HISTORY["one_in"] == 0:
        # a predecessor of the same shape lived, was used and died just before (objects of the new document are likely to get
        # its addresses), and some calls failed in between
        import gc
        hub = monitors.HUB
        hub.quiet += 1
        try:
            ghost = interp.run(ghost_ops(ops))
            exercise(ghost.doc)
            del ghost
        except Exception:
            pass
        finally:
            hub.quiet -= 1
        gc.collect()
        HISTORY["ghosts"] += 1
        failed_calls_prelude()
    if ELSEWHERE["one_in"] and int(h[2:8], 16) % ELSEWHERE["one_in"] == 0:
        st = build_elsewhere(ops)
        if st is not None:
            return st
    if observed is None:
        observed = int(h[:2], 16) % 2 == 0
    if not observed:
        return interp.run(ops)
    return interp.run(ops, interp.make_observer(random.Random(h)))


def tally_program(ctx, ops, st):
    """Tallies for the evidence: what kinds of things did the workload actually contain?"""
    c = ctx.counters
    for op, out in zip(ops, st.outcomes):
        c["op.%s.%s" % (op[0], out.split(":")[0])] += 1
        if out.startswith("refused") or out.startswith("error"):
            c["outcome.%s" % out[:70]] += 1
        if op[0] == "rec" and out == "ok":
            kind, rid, args, extras, via = op[2], op[3], op[4], op[5], op[6]
            mask = "".join("1" if f in args else "0" for f in gen.KINDS[kind][1])
            c["kind.%s.%s.%s" % (kind, "id" if rid else "anon", mask)] += 1
            c["via.%s" % via.split(":")[0]] += 1
            for f, spec in args.items():
                if isinstance(spec, dict) and "form" in spec:
                    c["argform.%s" % spec["form"]] += 1
                elif isinstance(spec, dict):
                    c["timeform.%s" % spec.get("as")] += 1
            if rid:
                c["idform.%s" % rid["form"]] += 1
            for n, v in extras:
                vk = v["k"]
                if vk == "lit" and v["dt"].get("form") == "xsd" and v["dt"]["local"] in (
                        "int", "long", "double", "boolean", "string", "anyURI", "dateTime"):
                    vk = "litnative"
                c["value.%s" % vk] += 1
                c["attrform.%s" % n["form"]] += 1


def tally_doc(ctx, doc):
    c = ctx.counters
    nb = len(doc._bundles)
    c["doc.bundles.%d" % min(nb, 3)] += 1
    views = strict.nsview(doc)
    if views[0][1][1]:
        c["ns.default_at_document"] += 1
    for k, (reg, default) in views[1:]:
        if default:
            c["ns.default_at_bundle"] += 1
        if reg:
            c["ns.bundle_declares_prefixes"] += 1
    for k, (reg, default) in views:
        uris = [u for _p, u in reg]
        if any(p.rsplit("_", 1)[-1].isdigit() and "_" in p for p, _u in reg):
            c["ns.generated_looking_prefix"] += 1
    ids = collections.Counter()
    for b in [doc] + list(doc._bundles.values()):
        for r in b._records:
            if r._identifier is not None:
                ids[(id(b), r._identifier.uri)] += 1
            for a, vs in r._attributes.items():
                if len(vs) > 1:
                    c["attr.multi_valued"] += 1
                    break
    if any(n > 1 for n in ids.values()):
        c["doc.repeated_identifier"] += 1


def nontrivial(doc):
    return len(doc._records) + sum(len(b._records) for b in doc._bundles.values()) >= 1


def cov_floor(extra, labels_min_hit=1):
    """Floor: every anchored function was entered (>=1 line hit)."""
    missed = []
    hit = extra.get("cov_hit", {})
    for label, lines in extra.get("cov_all", {}).items():
        if lines and len(hit.get(label, [])) < labels_min_hit:
            missed.append("anchored function never executed: %s" % label)
    return missed


def suite_under_monitors(monitor, workdir):
    """Thorough-tier workload: the repository's own test-suite runs with the monitors attached (pytest plugin).  Returns
    (counters, reports) for the given monitor; reports are (what, witness-with-test-id)."""
    import glob
    import json
    import subprocess
    from pv import env
    os.makedirs(workdir, exist_ok=True)
    out = os.path.join(workdir, "suite")
    e = dict(os.environ)
    e["PYTHONPATH"] = os.pathsep.join([os.path.join(env.VERIF, "lib"), env.PROV_SRC])
    e["PYTEST_PLUGINS"] = "pv.pytest_plugin"
    e["PV_PLUGIN_OUT"] = out
    e["PYTHONDONTWRITEBYTECODE"] = "1"
    p = subprocess.run([env.PYTHON, "-m", "pytest", "-q", "-p", "no:cacheprovider", "--timeout=900", "--continue-on-collection-errors", "-n", "8",
                        os.path.join(env.PROV_SRC, "prov", "tests")], env=e, cwd=workdir, capture_output=True, timeout=1800)
    counters, reports = collections.Counter(), []
    files = glob.glob(out + ".*.json")
    for f in files:
        d = json.load(open(f))
        for k, v in d["counts"].items():
            if k.startswith(monitor + "."):
                counters["suite." + k] += v
        for v in d["violations"]:
            if v["monitor"] == monitor:
                reports.append((v["what"], v["witness"]))
    counters["suite.processes_reporting"] = len(files)
    tail = p.stdout.decode(errors="replace").strip().splitlines()[-1:] if p.stdout else []
    return counters, reports, (tail[0] if tail else "")
