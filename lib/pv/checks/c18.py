"""C18 -- identifier look-up and typed listing always agree with the record list.

Deciding monitor: IDX (pv.monitors.idx_violations) -- get_record(x) / get_records(cls) / records versus a scan
of get_records() by identifier URI -- evaluated (i) at the exit of every record-adding path while a program is
being built (hooked on new_record, update, add_bundle, bundle, unified, flattened, deserialize), (ii) explicitly,
with every accepted spelling of present and absent identifiers (QualifiedName under the same / another prefix /
another Namespace object, 'prefix:local', bare, full URI), during construction and on every container derived
from the built documents (constructor records, add_record, update, add_bundle, unified, flattened, JSON and XML
deserialisation).
"""
import collections

from pv import gen, monitors, strict, interp
from pv.checks import common
from pv.runner import case_rng

import prov.model as pm
from prov.identifier import Identifier, Namespace, QualifiedName

ID = "C18"
LEVEL = "exploration"
ANCHORS = ["prov.model:ProvBundle._add_record", "prov.model:ProvBundle.get_record", "prov.model:ProvBundle.get_records",
           "prov.model:ProvBundle.records", "prov.model:ProvBundle.add_record", "prov.model:ProvBundle.new_record",
           "prov.model:ProvBundle.update", "prov.model:ProvDocument.update", "prov.model:ProvDocument.add_bundle",
           "prov.model:ProvDocument.flattened", "prov.model:ProvDocument.unified", "prov.model:ProvBundle.unified"]


def plan(tier, seed):
    return {
        "cases": 6000 if tier == "quick" else 80000,
        "hashseeds": [0] if tier == "quick" else [0, 1, 2, 3],
        "timeout_s": 300 if tier == "quick" else 3000,
        "rule": "case = two c01 programs A and B; look-ups in every spelling are issued while A is built (after a random subset of "
                "steps) and on every container produced by: ProvDocument(records), add_record across containers, A.update(B), "
                "add_bundle(bundle-free document), unified(), flattened(), JSON/XML deserialisation. distinct = canonical hash of "
                "(A,B,derivations); non-trivial = >= 1 identified record and >= 1 explicit look-up compared with the scan",
        "assumptions": [
            "the URI a 'prefix:local' string denotes is taken from the container's own registered namespaces (public .namespaces, "
            "for bundles also the document's unshadowed ones); bare names from the effective default namespace",
            "look-ups with QualifiedName objects may register namespaces (that is the real API); they are part of the history",
        ],
    }


def setup_worker(ctx):
    common.setup(ctx, ANCHORS)
    common.ELSEWHERE["one_in"] = 60      # one document in sixty is built by another interpreter process and arrives by pickle


def finish_worker(ctx):
    common.finish(ctx)


def make_case(ctx, idx):
    r = case_rng(ctx.seed, ID, idx)
    a = gen.Gen(r, gen.profile("c01", p_repeat_id=0.4)).program()
    b = gen.Gen(r, gen.profile("c01", p_repeat_id=0.4)).program()
    return {"A": a, "B": b, "lookup_steps": sorted(r.sample(range(len(a)), min(len(a), 4))), "seed": r.randint(0, 2 ** 30),
            "derive": r.sample(["ctor", "add_record", "update", "add_bundle", "unified", "flattened", "json", "xml", "adopt_bundles"], r.randint(2, 5))}


def scan(c):
    by = collections.OrderedDict()
    for rec in c.get_records():
        if rec.identifier is not None:
            by.setdefault(rec.identifier.uri, []).append(rec)
    return by


def prefix_view(c):
    view = {}
    doc = getattr(c, "_document", None)
    if doc is not None:
        for ns in doc.namespaces:
            view[ns.prefix] = ns.uri
    own = {ns.prefix: ns.uri for ns in c.namespaces}
    for p in list(view):
        if p in own and own[p] != view[p]:
            del view[p]
    view.update(own)
    return view


def effective_default(c):
    d = c.get_default_namespace()
    if d is None and getattr(c, "_document", None) is not None:
        d = c._document.get_default_namespace()
    return d.uri if d is not None else None


def explicit_lookups(ctx, c, r, where, problems, n_present=3, n_absent=2):
    """Issue look-ups in every spelling and compare with the scan (same objects, same order)."""
    by = scan(c)
    uris = list(by)
    r.shuffle(uris)
    targets = [(u, by[u]) for u in uris[:n_present]]
    view = prefix_view(c)
    for _ in range(n_absent):
        if view:
            p = r.choice(sorted(view))
            u = view[p] + "absent%d" % r.randint(0, 9)
            if u not in by:
                targets.append((u, []))
    # an absent identifier whose full URI contains a registered namespace twice must not be taken for the present record
    # that is left when the namespace is stripped everywhere (regression guard for the URI-compaction repair)
    for uri in uris[:2]:
        for p, u in view.items():
            if uri.startswith(u) and (u + uri) not in by:
                ctx.count("lookup.uri_doubled_namespace.absent")
                try:
                    got = c.get_record(u + uri)
                except Exception as e:
                    problems.append("%s: get_record(%r) raised %s" % (where, u + uri, type(e).__name__))
                    break
                if got:
                    problems.append("%s: get_record(full URI %r) returned %d records of <%s>" % (where, u + uri, len(got), got[0].identifier.uri))
                break
    # identifiers that live in the enclosing document or in sibling bundles but not in this container: a container answers for
    # its own records only
    doc = getattr(c, "_document", None)
    if doc is not None:
        foreign = []
        for other in [doc] + [b for b in doc.bundles if b is not c]:
            for rec in other.get_records():
                if rec.identifier is not None and rec.identifier.uri not in by:
                    foreign.append(rec.identifier)
        r.shuffle(foreign)
        for ident in foreign[:2]:
            for name, x in (("foreign_qn", ident), ("foreign_uri", ident.uri)):
                ctx.count("lookup.%s.absent" % name)
                try:
                    got = c.get_record(x)
                except Exception as e:
                    problems.append("%s: get_record(%s %r) raised %s" % (where, name, str(x), type(e).__name__))
                    continue
                if got:
                    problems.append("%s: get_record(%s %r) on bundle <%s> returned %d record(s) that are not in the bundle (scan of get_records() has none for <%s>)"
                                    % (where, name, str(x), getattr(c.identifier, "uri", None), len(got), ident.uri))
    for uri, want in targets:
        spellings = []
        if want:
            ident = want[0].identifier
            spellings.append(("qn_same_object", ident))
            nsu, local, pfx = ident.namespace.uri, ident.localpart, ident.namespace.prefix
            spellings.append(("qn_other_namespace_object", Namespace(pfx, nsu)[local]))
            if pfx:
                spellings.append(("qn_other_prefix", Namespace("lk%d" % r.randint(0, 3), nsu)[local]))
                spellings.append(("printed", str(ident)))
            elif ":" not in local:
                spellings.append(("bare", local))
            if len(uri) > 4:
                # the same URI cut into namespace and local part at another place (a name is its URI, however it is split)
                cut = r.randint(2, len(uri) - 1)
                spellings.append(("qn_other_split", Namespace("sp%d" % r.randint(0, 3), uri[:cut])[uri[cut:]]))
        else:
            for p, u in view.items():
                if uri.startswith(u) and p:
                    spellings.append(("qn_absent", Namespace(p, u)[uri[len(u):]]))
                    spellings.append(("printed_absent", "%s:%s" % (p, uri[len(u):])))
                    break
        spellings.append(("uri", uri))
        spellings.append(("uri_as_Identifier_object", Identifier(uri)))
        root = getattr(c, "_document", None)
        if want and root is not None and root is not c:
            # a bundle answers to the names of the document it lives in: a prefix only the document declares
            own = {n.prefix for n in c.namespaces} | set(getattr(c._namespaces, "_prefix_renamed_map", {})) | set(dict.keys(c._namespaces))
            for n in root.namespaces:
                if n.prefix and n.prefix not in own and not n.prefix.startswith(("sp", "lk")) and uri.startswith(n.uri) and len(uri) > len(n.uri) and ":" not in uri[len(n.uri):]:
                    spellings.append(("printed_with_a_prefix_of_the_document", "%s:%s" % (n.prefix, uri[len(n.uri):])))
                    break
        for name, x in spellings:
            ctx.count("lookup.%s.%s" % (name, "present" if want else "absent"))
            try:
                got = c.get_record(x)
            except Exception as e:
                problems.append("%s: get_record(%s %r) raised %s: %s" % (where, name, str(x), type(e).__name__, str(e)[:100]))
                continue
            gl = [] if got is None else list(got)
            # what the scan says *now* (a QualifiedName look-up may have registered a namespace, never changed records)
            now = scan(c).get(uri, [])
            if [id(g) for g in gl] != [id(w) for w in now]:
                problems.append("%s: get_record(%s %r) -> %d records %s, scan of get_records() has %d for <%s>"
                                % (where, name, str(x), len(gl), [getattr(g.identifier, "uri", None) for g in gl][:3], len(now), uri))
    # records is an independent copy
    lst = c.records
    n = len(c.get_records())
    lst.append(None)
    lst.reverse()
    if len(c.get_records()) != n or len(c.records) != n:
        problems.append("%s: mutating the list returned by .records changed the container" % where)
    # ... also when the caller's list keeps its length: every read of .records is a fresh copy of the record list
    lst2 = c.records
    if lst2:
        lst2.reverse()
        lst2[0] = None
    again = c.records
    if again is lst2 or [id(x) for x in again] != [id(x) for x in c.get_records()]:
        problems.append("%s: .records read after the caller changed the previous result in place differs from get_records()" % where)
    ctx.count("explicit_lookup_rounds")


def all_containers(doc):
    return [doc] + list(doc.bundles)


def judge(ctx, idx, case):
    hub = ctx.hub
    hub.context = {"check": ID, "idx": idx}
    import random
    r = random.Random(case["seed"])
    problems = []
    steps = set(case["lookup_steps"])

    def on_step(i, op, out, res, st):
        if i in steps:
            for c in all_containers(st.doc):
                explicit_lookups(ctx, c, r, "while building A, after step %d" % i, problems, 2, 1)

    sa = interp.run(case["A"], on_step)
    sb = common.build(case["B"])
    A, B = sa.doc, sb.doc
    derived = [("A", A)]
    for d in case["derive"]:
        try:
            if d == "ctor":
                recs = A.get_records()
                derived.append(("ProvDocument(records)", pm.ProvDocument(records=recs, namespaces=list(A.namespaces))))
            elif d == "add_record":
                tgt = r.choice(all_containers(A))
                for rec in r.sample(B.get_records(), min(3, len(B.get_records()))):
                    tgt.add_record(rec)
                derived.append(("add_record", A))
            elif d == "update":
                A.update(B)
                derived.append(("update", A))
            elif d == "add_bundle":
                flat = pm.ProvDocument(records=B.get_records())
                A.add_bundle(flat, Namespace("exb", "http://ex.org/bundles/")["added%d" % r.randint(0, 2)])
                derived.append(("add_bundle", A))
            elif d == "adopt_bundles":
                # the bundle *objects* of another document are attached to A (add_bundle(bundle)); that document is then dropped and
                # collected; the bundles now live in A and answer to A's names
                import gc
                donor = common.build(case["B"]).doc
                taken = 0
                for b in list(donor.bundles):
                    try:
                        A.add_bundle(b)
                        taken += 1
                    except pm.ProvException:
                        pass
                adopted = [b for b in A.bundles if b.document is A and any(b is x for x in donor.bundles)]
                del donor
                gc.collect()
                ctx.count("adopted_bundles", taken)
                # the adopting document now declares a prefix of its own for a namespace an adopted bundle uses: the bundle lives in A,
                # so it answers to that prefix
                for k, b in enumerate(adopted[:2]):
                    recs_ = [x for x in b.get_records() if x.identifier is not None and ":" not in x.identifier.localpart and x.identifier.localpart]
                    if not recs_:
                        continue
                    x = recs_[0]
                    ns_ = A.add_namespace("adopter%d" % k, x.identifier.namespace.uri)
                    own_ = {n.prefix for n in b.namespaces} | set(dict.keys(b._namespaces)) | set(getattr(b._namespaces, "_prefix_renamed_map", {}))
                    if ns_ is None or not ns_.prefix or ns_.prefix in own_:
                        continue
                    want_ = [y for y in b.get_records() if y.identifier is not None and y.identifier.uri == x.identifier.uri]
                    got_ = b.get_record("%s:%s" % (ns_.prefix, x.identifier.localpart))
                    ctx.count("adopted_bundle_asked_under_a_prefix_of_its_new_document")
                    if [id(y) for y in (got_ or [])] != [id(y) for y in want_]:
                        problems.append("adopted bundle <%s>: get_record(%r) under a prefix its new document declares returned %d records, the bundle holds %d for <%s>"
                                        % (b.identifier.uri, "%s:%s" % (ns_.prefix, x.identifier.localpart), len(got_ or []), len(want_), x.identifier.uri))
                derived.append(("add_bundle(bundle objects of a document that died)", A))
            elif d == "unified":
                derived.append(("unified", A.unified()))
            elif d == "flattened":
                derived.append(("flattened", A.flattened()))
            elif d in ("json", "xml"):
                derived.append((d, pm.ProvDocument.deserialize(content=A.serialize(format=d), format=d)))
            ctx.count("derive.%s.ok" % d)
        except pm.ProvException as e:
            ctx.count("derive.%s.refused" % d)
            continue
        except Exception as e:
            ctx.count("derive.%s.raised.%s" % (d, type(e).__name__))   # judged by the property that owns that operation
            continue
        name, doc = derived[-1]
        for c in all_containers(doc):
            bad = monitors.idx_violations(c, counts=hub.counts)
            hub.counts["IDX.evaluations"] += 1
            problems.extend("%s: %s" % (name, b) for b in bad)
            explicit_lookups(ctx, c, r, "after %s" % name, problems)
    # a typed listing is the answer at the time of the call: records added afterwards (here: while iterating) are not part of it
    for c in all_containers(A):
        for cls in (pm.ProvElement, pm.ProvEntity, (pm.ProvEntity, pm.ProvAgent), None):
            want = [x for x in c.get_records() if cls is None or isinstance(x, cls)]
            try:
                it = c.get_records(cls) if cls is not None else c.get_records()
                c.entity(Namespace("late", "http://late.example/")["added-after-the-call-%d" % r.randint(0, 99)])
                got, n = [], 0
                for x in it:
                    got.append(x)
                    n += 1
                    if n > len(want) + 50:
                        break
                ctx.count("typed_listing_consumed_after_an_addition")
                if [id(x) for x in got] != [id(x) for x in want]:
                    problems.append("get_records(%s) consumed after a later addition yields %d records, the container held %d such records at the call"
                                    % (getattr(cls, "__name__", cls), len(got), len(want)))
            except pm.ProvException:
                pass
    reports = [(what, wit) for mon, what, wit in hub.drain() if mon == "IDX"]
    if problems:
        ctx.violation(idx, "look-up disagrees with the record list: %s" % problems[0][:300], case, {"problems": problems[:8]})
    elif reports:
        ctx.violation(idx, "IDX monitor: %s" % reports[0][0][:300], case, {"reports": [{"what": w, "witness": x} for w, x in reports[:5]]})
    if any(scan(c) for _n, d in derived for c in all_containers(d)):
        ctx.hashes.add(gen.case_hash(case))
        ctx.sample({"A": case["A"], "derive": case["derive"], "lookup_steps": case["lookup_steps"]}, limit=2)


def extra_stage(tier, seed, workdir):
    """Thorough tier: the repository's own 939 tests run with the monitor attached (pytest plugin pv.pytest_plugin)."""
    if tier != "thorough":
        return {}, []
    counters, reports, tail = common.suite_under_monitors("IDX", workdir)
    counters["suite.ran"] = 1
    viol = [{"idx": -2, "what": "IDX monitor while the repository's test-suite ran (%s): %s" % ((w[1] or {}).get("context"), w[0]),
             "payload": {"workload": "repository test-suite under monitors", "pytest": tail}, "witness": w[1]} for w in reports[:5]]
    return counters, viol


def run_case(ctx, idx):
    if idx % 3 == 0:
        with common.warnings_are_errors(ctx):
            judge(ctx, idx, make_case(ctx, idx))
        return
    judge(ctx, idx, make_case(ctx, idx))


def replay(ctx, rec):
    judge(ctx, rec["idx"], rec["payload"])


def floors(counters, tier, extra):
    out = []
    need = 200 if tier == "quick" else 2000
    if counters.get("mon.IDX.evaluations", 0) < 5000:
        out.append("IDX evaluated only %d times" % counters.get("mon.IDX.evaluations", 0))
    for k in ("lookup.qn_same_object.present", "lookup.qn_other_namespace_object.present", "lookup.qn_other_prefix.present",
              "lookup.printed.present", "lookup.bare.present", "lookup.uri.present", "lookup.qn_absent.absent",
              "lookup.printed_absent.absent", "lookup.uri.absent",
              "derive.ctor.ok", "derive.add_record.ok", "derive.update.ok", "derive.add_bundle.ok", "derive.unified.ok",
              "derive.flattened.ok", "derive.json.ok", "derive.xml.ok"):
        if counters.get(k, 0) < need // 4:
            out.append("%s seen only %d times" % (k, counters.get(k, 0)))
    for w in ("ProvBundle.new_record", "ProvDocument.update", "ProvDocument.add_bundle", "ProvDocument.unified", "ProvDocument.flattened",
              "deserialize.json"):
        if counters.get("mon.IDX.at." + w, 0) < need // 4:
            out.append("IDX hook at %s fired only %d times" % (w, counters.get("mon.IDX.at." + w, 0)))
    if tier == "thorough" and counters.get("suite.IDX.evaluations", 0) < 1000:
        out.append("the monitor observed the repository's test-suite only %d times" % counters.get("suite.IDX.evaluations", 0))
    out.extend(common.cov_floor(extra))
    return out


TECHNIQUE = "runtime monitoring: index-coherence invariant (IDX) hooked on every record-adding path + explicit look-ups in every spelling"
LEVEL_TEXT = ("Exploration by runtime monitoring: the IDX invariant (get_record / get_records(cls) / records versus a scan of the record list) "
              "is evaluated at the exit of every record-adding entry point while generated programs are being built, and explicitly -- with "
              "QualifiedName (same object, other Namespace object, other prefix), printed, bare and full-URI spellings of present and absent "
              "identifiers -- during construction and on every container derived by constructor records, add_record, update, add_bundle, "
              "unified, flattened and JSON/XML deserialisation."
              " Look-ups also use Identifier objects, another split of the same URI, document-level prefixes on bundles adopted from a document that died; typed listings are consumed after a later addition; a third of the cases runs with warnings as errors and IDX is evaluated when a record-adding call raises.")
LEVEL_NOTE = ("Trusted: the scan of get_records() as ground truth; the URI a string spelling denotes is computed from the container's public "
              "namespace declarations. Bounded documents; held on the observed executions only.")
DESIGN_REF = "DESIGN.md section 5 (IDX) and section 6, C18"
