"""C17 -- writing to a file path is exact and all-or-nothing.

Monitor FS: an audit-hook log (open / os.rename / os.remove / shutil / tempfile events) plus before/after listings and
hashes of a private sandbox directory and a private TMPDIR.  Fault plan (fault enumeration, not sampling):
  in-process : the stream the serialiser writes to raises at the k-th write, for every k up to the number of writes seen in a
               clean run; the final os.replace / shutil.move / os.rename raises; a sys.monitoring LINE failpoint raises at every
               statement boundary of ProvDocument.serialize's path branch;
  OS level   : the same call in a child process under `strace -e inject=<syscall>:error=...|signal=SIGKILL:when=k` for write,
               rename*, openat, for every k, with the destination on the file system of TMPDIR and on another one (/dev/shm).
On success: only the named file was created/modified and its bytes are the serialisation.  On any failure: the named file's
bytes are its previous bytes (or it is still absent).
"""
import hashlib
import io
import json
import os
import shutil
import subprocess
import sys
import tempfile

from pv import env, gen, strict, interp
from pv.checks import common
from pv.runner import case_rng

import prov.model as pm

ID = "C17"
LEVEL = "fault_enumeration"
ANCHORS = ["prov.model:ProvDocument.serialize"]
NAMES = ["plain.out", "with space.out", "ünï-cødé.out", "a#b.out", "x?y=1.out", "semi;colon.out", "c:d.out", "per%20cent.out", "sub/dir.out",
         "ABS", "trailing.", "file:REL", "dotted..name", "~tilde.out", "FILEURL", "run:1.out", "prov-2.0:out file.out", "http:x.out", "+plus.out", "LINK/../via-symlink.out", "SYMLINK-TO-FILE", "A-DIRECTORY", "SYMLINK-TO-DIR", "~/in-a-directory-called-tilde.out",
         "PATHLIB-OBJECT", "FSPATH-OBJECT"]


class FsPath:
    """Some object that implements os.PathLike (as os.DirEntry does) without being a pathlib path: str() of it is not the path."""

    def __init__(self, path):
        self._p = path

    def __fspath__(self):
        return self._p
FORMATS = ["json", "xml", "provn", "rdf"]
_audit = {"on": False, "log": []}


def _hook(event, args):
    if _audit["on"] and event in ("open", "os.rename", "os.remove", "os.unlink", "shutil.move", "shutil.copyfile", "tempfile.mkstemp", "os.mkdir",
                                  "os.truncate", "os.link", "os.symlink"):
        try:
            _audit["log"].append((event, tuple(str(a)[:200] for a in args[:3])))
        except Exception:
            pass


def plan(tier, seed):
    return {
        "cases": 240 if tier == "quick" else 2400,
        "hashseeds": [0],
        "max_workers": 16,
        "timeout_s": 500 if tier == "quick" else 3400,
        "rule": "case = (document, format, file name kind, destination absent|present) with ALL of: a clean run, the write-k fault for every k, the "
                "move fault, a LINE failpoint at every statement of the path branch (in-process); every 15th case (thorough: every 3rd case) "
                "additionally the OS-level plan under strace: error and SIGKILL injection at every k for write / rename / openat, same and "
                "different file system. distinct = (program hash, format, name, present); non-trivial = >= 1 fault was injected and the "
                "destination was re-read",
        "assumptions": [
            "file names are local names (relative, absolute, with spaces, non-ASCII, URL-syntax characters) or file: URLs; netloc forms are refused by documented design",
            "after an injected failure stray temporary files are counted (not a violation: the statement's 'nowhere else' is about success); "
            "after SIGKILL nothing can clean up",
            "power-loss semantics (no fsync) are out of reach and not claimed",
        ],
    }


def setup_worker(ctx):
    common.setup(ctx, ANCHORS)
    sys.addaudithook(_hook)
    ctx.strace = shutil.which("strace")
    ctx.root = tempfile.mkdtemp(prefix="pv-c17-", dir=os.environ.get("TMPDIR"))
    ctx.shm = None
    if os.path.isdir("/dev/shm") and os.access("/dev/shm", os.W_OK):
        ctx.shm = tempfile.mkdtemp(prefix="pv-c17-", dir="/dev/shm")


def finish_worker(ctx):
    common.finish(ctx)
    shutil.rmtree(ctx.root, ignore_errors=True)
    if ctx.shm:
        shutil.rmtree(ctx.shm, ignore_errors=True)


def make_case(ctx, idx):
    r = case_rng(ctx.seed, ID, idx)
    big = r.random() < 0.5
    steps = 60 if big else None
    if (idx // 4) % 5 == 2:
        steps = 700          # several hundred records: the serialisation crosses every usual buffer size (64 KiB and more), in every format
    ops = gen.Gen(r, gen.profile("c06", max_steps=60 if big else 8, max_bundles=1, ns_uris=gen.NS_URIS_ASCII)).program(steps=steps)
    fmt = FORMATS[idx % len(FORMATS)]
    # serializer options travel with the call: "exact" means the bytes this very call would hand to a stream
    kw = r.choice({"json": [{}, {"indent": 2}, {"sort_keys": True, "indent": 0}], "xml": [{}, {"force_types": True}], "provn": [{}],
                   "rdf": [{}, {"rdf_format": "nt"}, {"rdf_format": "trig"}]}[fmt])
    return {"ops": ops, "fmt": fmt, "name": NAMES[(idx // len(FORMATS)) % len(NAMES)], "present": (idx // 2) % 2 == 0, "kw": kw, "prev": "crlf" if idx % 3 == 0 else "other",
            "oslevel": (ctx.tier == "thorough" and idx % 3 == 0) or idx % 15 == 0}


# ---- helpers -----------------------------------------------------------------------------------------
def listing(*dirs):
    out = {}
    for d in dirs:
        for root, _ds, files in os.walk(d):
            for f in files:
                p = os.path.join(root, f)
                try:
                    with open(p, "rb") as fh:
                        out[p] = hashlib.sha1(fh.read()).hexdigest()
                except OSError:
                    out[p] = "unreadable"
    return out


def resolve_name(kind, box):
    """(argument passed to serialize, path where the bytes must end up)"""
    if kind == "ABS":
        p = os.path.join(box, "absolute name.out")
        return p, p
    if kind == "FILEURL":
        p = os.path.join(box, "fromurl.out")
        return "file://" + p, p
    if kind == "file:REL":
        return "file:relurl.out", os.path.join(box, "relurl.out")
    if kind == "sub/dir.out":
        os.makedirs(os.path.join(box, "sub"), exist_ok=True)
    if kind == "SYMLINK-TO-FILE":
        # the named file is a symbolic link to a regular file kept elsewhere: a failed save must leave what it shows intact
        os.makedirs(os.path.join(box, "vault"), exist_ok=True)
        target = os.path.join(box, "vault", "current.out")
        if not os.path.lexists(os.path.join(box, "latest.out")):
            with open(target, "wb") as f:
                f.write(b"previous content that must survive\n" * 40)
            os.symlink(os.path.join("vault", "current.out"), os.path.join(box, "latest.out"))
        return "latest.out", os.path.join(box, "latest.out")
    if kind == "~/in-a-directory-called-tilde.out":
        os.makedirs(os.path.join(box, "~"), exist_ok=True)       # a directory literally named "~"; HOME points elsewhere (see Box)
    if kind in ("PATHLIB-OBJECT", "FSPATH-OBJECT"):
        import pathlib
        p = os.path.join(box, "named-by-an-object.out")
        return (pathlib.Path(p) if kind == "PATHLIB-OBJECT" else FsPath(p)), p
    if kind == "SYMLINK-TO-DIR":
        # the name is a symbolic link to a directory: the document replaces the link (the name then is the file); nothing is
        # written into the directory
        os.makedirs(os.path.join(box, "store2"), exist_ok=True)
        with open(os.path.join(box, "store2", "keep.txt"), "wb") as f:
            f.write(b"kept\n")
        if not os.path.lexists(os.path.join(box, "latest-dir")):
            os.symlink("store2", os.path.join(box, "latest-dir"))
        return "latest-dir", os.path.join(box, "latest-dir")
    if kind == "A-DIRECTORY":
        # the name is an existing, non-empty directory: no file can be written under that name
        os.makedirs(os.path.join(box, "results.d"), exist_ok=True)
        with open(os.path.join(box, "results.d", "keep.txt"), "wb") as f:
            f.write(b"kept\n")
        return "results.d", os.path.join(box, "results.d")
    if kind == "LINK/../via-symlink.out":
        # LINK -> store/deep : the operating system resolves LINK/.. to store/, a lexical normalisation would say "."
        os.makedirs(os.path.join(box, "store", "deep"), exist_ok=True)
        if not os.path.islink(os.path.join(box, "LINK")):
            os.symlink(os.path.join("store", "deep"), os.path.join(box, "LINK"))
        return kind, os.path.join(box, "store", "via-symlink.out")
    return kind, os.path.join(box, kind)


class Box:
    """A private directory that is the cwd while the library writes, plus a private TMPDIR."""

    def __init__(self, root):
        self.dir = tempfile.mkdtemp(prefix="box-", dir=root)
        self.tmp = tempfile.mkdtemp(prefix="tmp-", dir=root)

    def __enter__(self):
        self.cwd = os.getcwd()
        self.oldtmp = (os.environ.get("TMPDIR"), tempfile.tempdir)
        os.chdir(self.dir)
        os.environ["TMPDIR"] = self.tmp
        tempfile.tempdir = self.tmp
        self.oldhome = os.environ.get("HOME")
        os.environ["HOME"] = self.tmp        # "~" must not mean anything to a plain file name; if it does, it shows up here
        return self

    def __exit__(self, *a):
        os.chdir(self.cwd)
        if self.oldhome is None:
            os.environ.pop("HOME", None)
        else:
            os.environ["HOME"] = self.oldhome
        if self.oldtmp[0] is None:
            os.environ.pop("TMPDIR", None)
        else:
            os.environ["TMPDIR"] = self.oldtmp[0]
        tempfile.tempdir = self.oldtmp[1]
        shutil.rmtree(self.dir, ignore_errors=True)
        shutil.rmtree(self.tmp, ignore_errors=True)


class Injected(Exception):
    pass


class FaultyStream:
    def __init__(self, real, fail_at, counter, interrupt=False):
        self._r, self._k, self._c, self._interrupt = real, fail_at, counter, interrupt

    def write(self, data):
        self._c[0] += 1
        if self._k is not None and self._c[0] == self._k:
            half = data[: len(data) // 2]
            if half:
                self._r.write(half)          # a short write before the failure, as a full disk would do
            if self._interrupt:
                raise KeyboardInterrupt("injected at write %d" % self._k)   # not an Exception: Ctrl-C / a signal handler raising
            raise OSError(28, "No space left on device (injected at write %d)" % self._k)
        return self._r.write(data)

    def __getattr__(self, n):
        return getattr(self._r, n)

    def __enter__(self):
        return self

    def __exit__(self, *a):
        self._r.close()
        return False


class QuotaRaw(io.RawIOBase):
    """A raw binary file that behaves like a disk filling up: it accepts `quota` more bytes in total -- the write that crosses
    the limit is a *short write* (returns fewer bytes than given, as write(2) does) -- and fails with ENOSPC afterwards."""

    def __init__(self, fd, quota, counter):
        self._fd, self._left, self._c = fd, quota, counter

    def writable(self):
        return True

    def fileno(self):
        return self._fd

    def write(self, data):
        self._c[0] += 1
        data = bytes(data)
        if self._left <= 0:
            raise OSError(28, "No space left on device (injected: quota exhausted)")
        n = os.write(self._fd, data[: self._left])
        self._left -= n
        return n

    def close(self):
        if not self.closed:
            try:
                os.close(self._fd)
            finally:
                super().close()


def quota_fdopen(quota, counter):
    """Replacement for os.fdopen honouring the caller's buffering choice: buffered callers get io.BufferedWriter over the
    quota-limited raw file (which retries short writes and surfaces ENOSPC), unbuffered callers get the raw file itself."""
    def fdopen(fd, mode="r", buffering=-1, *a, **k):
        raw = QuotaRaw(fd, quota, counter)
        if buffering == 0:
            return raw
        return io.BufferedWriter(raw, buffer_size=buffering if buffering and buffering > 1 else io.DEFAULT_BUFFER_SIZE)
    return fdopen


def reference_bytes(doc, fmt, kw=None):
    b = io.BytesIO()
    doc.serialize(b, format=fmt, **(kw or {}))
    return b.getvalue()


PREV_OF = [b""]
RDF_SYNTAX = ["trig"]      # syntax of the RDF texts of the case being judged (set per case)


def content_key(fmt, data):
    """What a complete serialisation denotes (independent readers; rdflib via the library for RDF). None if unreadable."""
    from pv.readers import provjson as jr, provxml as xr, provn as nr
    try:
        if fmt == "json":
            return {k: set(v) for k, v in jr.read(data.decode("utf-8"))[0].items()}
        if fmt == "xml":
            return {k: set(v) for k, v in xr.read(data)[0].items()}
        if fmt == "provn":
            return {k: set(v) for k, v in nr.read(data.decode("utf-8"))[0].items()}
        import rdflib
        g = rdflib.ConjunctiveGraph()
        g.parse(data=data.decode("utf-8"), format=RDF_SYNTAX[0])
        return g
    except Exception:
        return None


def same_serialisation(fmt, got, ref, doc, same_process=False):
    """Byte equality, or -- because attribute values live in sets whose iteration order differs between processes (and RDF
    blank-node labels are fresh every time) -- the same complete content.  Within one process the JSON, XML and PROV-N texts of
    one document are repeatable (C13), so there the file must hold exactly the bytes the same call hands to a stream."""
    if got == ref:
        return True
    if same_process and fmt != "rdf":
        return False
    if len(got) != len(ref) and fmt != "rdf":
        return False
    a, b = content_key(fmt, got), content_key(fmt, ref)
    if a is None or b is None:
        # not readable by the independent reader (document outside that format's space): same bytes up to reordering
        return len(got) == len(ref) and sorted(got) == sorted(ref)
    if fmt == "rdf":
        from pv.checks.c13 import _iso
        return _iso(a, b)
    return a == b


def run_inprocess(ctx, case, problems):
    doc = interp.run(case["ops"]).doc
    fmt, present = case["fmt"], case["present"]
    kw = case.get("kw") or {}
    RDF_SYNTAX[0] = kw.get("rdf_format", "trig")
    ctx.count("writer_options.%s.%s" % (fmt, ",".join("%s=%s" % x for x in sorted(kw.items())) or "none"))
    try:
        ref = reference_bytes(doc, fmt, kw)
    except Exception as e:
        ctx.count("skipped.unserialisable.%s.%s" % (fmt, type(e).__name__))
        return 0
    PREV = b"previous content that must survive\n" * 40
    if case.get("prev") == "crlf" and b"\n" in ref:
        # the destination already holds this very serialisation, except for its line ends: it still has to be replaced
        PREV = ref.replace(b"\r\n", b"\n").replace(b"\n", b"\r\n")
        ctx.count("previous_content.same_text_other_line_ends")
    PREV_OF[0] = PREV
    injected = 0
    orig_fdopen, orig_replace, orig_move, orig_rename = os.fdopen, os.replace, shutil.move, os.rename

    def attempt(fault):
        """One serialize() call in a fresh box under one fault. Returns number of writes observed."""
        nonlocal injected
        writes = [0]
        with Box(ctx.root) as box:
            arg, dest = resolve_name(case["name"], box.dir)
            if (present and case["name"] != "SYMLINK-TO-DIR") or case["name"] == "SYMLINK-TO-FILE":
                with open(dest, "wb") as f:
                    f.write(PREV_OF[0])
            if fault is not None and injected % 5 == 2:
                # history: an earlier save into this directory (a sibling file) whose final move the system refused with EBUSY
                def busy(*a, **k):
                    raise OSError(16, "Device or resource busy (injected, earlier call)")
                os.replace = shutil.move = os.rename = busy
                try:
                    doc.serialize(os.path.join(os.path.dirname(dest) or ".", "sibling-of-an-earlier-call.out"), format=fmt, **kw)
                except OSError:
                    pass
                finally:
                    os.replace, shutil.move, os.rename = orig_replace, orig_move, orig_rename
                ctx.count("history.earlier_save_refused_with_EBUSY")
            before = listing(box.dir, box.tmp)
            _audit["log"] = []
            _audit["on"] = True
            mon = None
            try:
                if fault and fault[0] == "write":
                    os.fdopen = lambda fd, *a, **k: FaultyStream(orig_fdopen(fd, *a, **k), fault[1], writes)
                elif fault and fault[0] == "interrupt":
                    os.fdopen = lambda fd, *a, **k: FaultyStream(orig_fdopen(fd, *a, **k), fault[1], writes, interrupt=True)
                elif fault and fault[0] == "quota":
                    os.fdopen = quota_fdopen(fault[1], writes)
                else:
                    os.fdopen = lambda fd, *a, **k: FaultyStream(orig_fdopen(fd, *a, **k), None, writes)
                if fault and fault[0] == "move":
                    def boom(*a, **k):
                        raise OSError(5, "Input/output error (injected at the final move)")
                    os.replace = shutil.move = os.rename = boom
                if fault and fault[0] == "move_interrupt":
                    def boom2(*a, **k):
                        raise KeyboardInterrupt("injected at the final move")
                    os.replace = shutil.move = os.rename = boom2
                if fault and fault[0] == "line":
                    mon = LineFailpoint(pm.ProvDocument.serialize, fault[1])
                    mon.start()
                outcome = "ok"
                try:
                    doc.serialize(arg, format=fmt, **kw)
                except Injected:
                    outcome = "failed"
                except KeyboardInterrupt as e:
                    if "injected" not in str(e):
                        raise
                    outcome = "failed"
                except OSError as e:
                    outcome = "failed" if "injected" in str(e) else "oserror:%s" % e
                except Exception as e:
                    outcome = "exception:%s:%s" % (type(e).__name__, str(e)[:100])
            finally:
                if mon:
                    mon.stop()
                os.fdopen, os.replace, shutil.move, os.rename = orig_fdopen, orig_replace, orig_move, orig_rename
                _audit["on"] = False
            after = listing(box.dir, box.tmp)
            log = list(_audit["log"])
            label = "clean" if not fault else "%s@%s" % fault
            if fault is None:
                ctx.count("clean_runs")
                if outcome != "ok":
                    problems.append({"fault": None, "problem": "serialize to %r failed: %s" % (arg, outcome)})
                    return writes[0]
                changed = {p for p in set(before) | set(after) if before.get(p) != after.get(p)}
                if changed != {dest}:
                    problems.append({"fault": None, "problem": "files created/modified/removed are %s, expected exactly [%s]"
                                     % (sorted(os.path.relpath(p, ctx.root) for p in changed), os.path.relpath(dest, ctx.root)),
                                     "audit": log[:12]})
                elif not same_serialisation(fmt, open(dest, "rb").read(), ref, doc, same_process=True):
                    problems.append({"fault": None, "problem": "bytes at the destination differ from the serialisation", "audit": log[:12]})
                else:
                    # "the complete serialisation": judged also against the text the same call *returns* (another code path than the
                    # byte stream the reference came from), through the independent readers
                    try:
                        text = doc.serialize(format=fmt, **kw)
                        tk = content_key(fmt, text.encode("utf-8") if isinstance(text, str) else text)
                    except Exception:
                        tk = None
                    if tk is not None:
                        fk = content_key(fmt, open(dest, "rb").read())
                        ctx.count("file_read_back_by_independent_reader")
                        if fk is None:
                            problems.append({"fault": None, "problem": "the file is not a readable %s text although the string the same call returns is (%d bytes in the file, %d in the string)"
                                             % (fmt, os.path.getsize(dest), len(text))})
                        elif fmt != "rdf" and fk != tk:
                            problems.append({"fault": None, "problem": "the file denotes another document than the string the same call returns"})
                ctx.count("audit_events", len(log))
            else:
                injected += 1
                ctx.count("faults.%s" % fault[0])
                if outcome == "ok":
                    if fault[0] == "line" and not (mon and mon.fired):
                        ctx.count("failpoint_not_reached")
                    elif fault[0] != "line":
                        ctx.count("fault_swallowed.%s" % fault[0])
                        if fault[0] == "quota":
                            problems.append({"fault": label, "problem": "the file system accepted only %d of %d bytes, yet the call returned normally" % (fault[1], len(ref))})
                    # an operation that completes despite the fault must still be exact
                    if after.get(dest) is None or not same_serialisation(fmt, open(dest, "rb").read(), ref, doc, same_process=True):
                        problems.append({"fault": label, "problem": "call returned normally but the destination does not hold the serialisation"})
                else:
                    if outcome.startswith("exception") or outcome.startswith("oserror"):
                        ctx.count("other_outcome.%s" % outcome.split(":")[1][:30])
                    now = after.get(dest)
                    was = before.get(dest)
                    if now != was:
                        state = "absent" if now is None else ("%d bytes" % os.path.getsize(dest))
                        problems.append({"fault": label, "problem": "after the injected failure the destination is %s; it was %s before"
                                         % (state, "absent" if was is None else "%d bytes" % len(PREV_OF[0])), "audit": log[:12]})
                    strays = [p for p in after if p not in before]
                    if strays:
                        ctx.count("stray_files_after_failure", len(strays))
            return writes[0]

    if case["name"] == "A-DIRECTORY":
        # the success clause cannot be met: the call has to fail, and then nothing may have changed anywhere
        with Box(ctx.root) as box:
            arg, dest = resolve_name(case["name"], box.dir)
            before = listing(box.dir, box.tmp)
            try:
                doc.serialize(arg, format=fmt, **kw)
                outcome = "returned normally"
            except Exception as e:
                outcome = "raised %s" % type(e).__name__
            after = listing(box.dir, box.tmp)
            ctx.count("directory_destination.%s" % outcome.split(" ")[0])
            changed = sorted(os.path.relpath(p, ctx.root) for p in set(before) | set(after) if before.get(p) != after.get(p))
            if outcome == "returned normally":
                problems.append({"fault": None, "problem": "serialize(%r) returned normally although the name is a directory; files created/modified: %s" % (arg, changed)})
            elif changed:
                problems.append({"fault": None, "problem": "serialize(%r) %s and left files created/modified/removed: %s" % (arg, outcome, changed)})
        return 1
    if case["name"] in ("PATHLIB-OBJECT", "FSPATH-OBJECT"):
        # a destination named by an os.PathLike object: either the library takes it for the path it denotes (then the clean-run rule
        # below applies: exactly that file, exactly those bytes), or it refuses it and nothing changes anywhere
        with Box(ctx.root) as box:
            arg, dest = resolve_name(case["name"], box.dir)
            if present:
                with open(dest, "wb") as f:
                    f.write(b"previous content\n")
            before = listing(box.dir, box.tmp)
            try:
                doc.serialize(arg, format=fmt, **kw)
                outcome = "returned normally"
            except Exception as e:
                outcome = "raised %s" % type(e).__name__
            after = listing(box.dir, box.tmp)
            ctx.count("pathlike_destination.%s" % outcome.split(" ")[0])
            changed = {p for p in set(before) | set(after) if before.get(p) != after.get(p)}
            shown = sorted(os.path.relpath(p, ctx.root) for p in changed)
            if outcome == "returned normally":
                if changed != {dest}:
                    problems.append({"fault": None, "problem": "serialize(<%s for %r>) returned normally; files created/modified: %s, expected exactly the named one"
                                     % (type(arg).__name__, os.path.basename(dest), shown)})
                elif not same_serialisation(fmt, open(dest, "rb").read(), ref, doc, same_process=True):
                    problems.append({"fault": None, "problem": "bytes at the destination named by a path-like object differ from the serialisation"})
            elif changed:
                problems.append({"fault": None, "problem": "serialize(<%s>) %s and left files created/modified/removed: %s" % (type(arg).__name__, outcome, shown)})
        return 1
    nwrites = attempt(None)
    if problems:
        return injected
    for k in range(1, nwrites + 1):
        attempt(("write", k))
        if problems:
            return injected
    # disk-full plan at the raw level: the file accepts q bytes, the write crossing the limit is a short write, then ENOSPC
    for q in sorted({0, 1, len(ref) // 2, max(0, len(ref) - 1)}):
        if q < len(ref):
            attempt(("quota", q))
            if problems:
                return injected
    attempt(("move", 1))
    # the same points hit by an exception that is not an Exception (KeyboardInterrupt): first, middle and last write, and the move
    for k in sorted({1, (nwrites + 1) // 2, nwrites}):
        if k >= 1 and not problems:
            attempt(("interrupt", k))
    if not problems:
        attempt(("move_interrupt", 1))
    for line in LineFailpoint.lines_of(pm.ProvDocument.serialize):
        if problems:
            break
        attempt(("line", line))
    ctx.count("writes_per_clean_run.%s" % ("1" if nwrites == 1 else "2-5" if nwrites <= 5 else "6+"))
    return injected


class LineFailpoint:
    """Raise Injected when execution reaches a given line of a function (sys.monitoring LINE event, local to its code)."""
    TOOL = 4

    def __init__(self, func, line):
        self.code = getattr(func, "__wrapped__", func).__code__
        f = func
        while hasattr(f, "__wrapped__"):
            f = f.__wrapped__
        self.code = f.__code__
        self.line = line
        self.fired = False

    @classmethod
    def lines_of(cls, func):
        f = func
        while hasattr(f, "__wrapped__"):
            f = f.__wrapped__
        code = f.__code__
        lines = sorted({ln for _s, _e, ln in code.co_lines() if ln is not None and ln > code.co_firstlineno})
        # the path branch starts after the stream branch: keep lines from the `else:` part (after `location = destination`)
        import inspect
        src, first = inspect.getsourcelines(f)
        start = first
        for i, l in enumerate(src):
            if "location = destination" in l:
                start = first + i
        return [ln for ln in lines if ln >= start]

    def start(self):
        mon = sys.monitoring
        try:
            mon.use_tool_id(self.TOOL, "pv-failpoint")
        except ValueError:
            pass
        mon.register_callback(self.TOOL, mon.events.LINE, self._cb)
        mon.set_local_events(self.TOOL, self.code, mon.events.LINE)

    def _cb(self, code, line):
        if code is self.code and line == self.line and not self.fired:
            self.fired = True
            raise Injected("failpoint at line %d" % line)

    def stop(self):
        mon = sys.monitoring
        try:
            mon.set_local_events(self.TOOL, self.code, 0)
            mon.register_callback(self.TOOL, mon.events.LINE, None)
            mon.free_tool_id(self.TOOL)
        except Exception:
            pass


# ---- OS level -------------------------------------------------------------------------------------------
CHILD = r"""
import sys, json, os
sys.path.insert(0, %(lib)r)
os.environ["PROV_SRC"] = %(src)r
import pv
from pv import interp
doc = interp.run(json.load(open(%(prog)r))).doc
os.chdir(%(cwd)r)
doc.serialize(%(arg)r, format=%(fmt)r, **%(kw)r)
"""


def run_oslevel(ctx, case, problems):
    if not ctx.strace:
        ctx.count("strace_unavailable")
        return 0
    fmt = case["fmt"]
    injected = 0
    if case["name"] in ("A-DIRECTORY", "PATHLIB-OBJECT", "FSPATH-OBJECT"):
        return 0
    RDF_SYNTAX[0] = (case.get("kw") or {}).get("rdf_format", "trig")
    PREV = b"previous content that must survive\n" * 40
    for fs_name, base in (("same_fs", ctx.root), ("other_fs", ctx.shm)):
        if base is None:
            ctx.count("other_fs_unavailable")
            continue
        work = tempfile.mkdtemp(prefix="os-", dir=ctx.root)        # TMPDIR of the child + program file
        box = tempfile.mkdtemp(prefix="dst-", dir=base)              # destination directory
        try:
            prog = os.path.join(work, "prog.json")
            with open(prog, "w") as f:
                json.dump(case["ops"], f)
            arg, dest = resolve_name(case["name"] if case["name"] not in ("file:REL",) else "plain.out", box)
            script = os.path.join(work, "child.py")
            with open(script, "w") as f:
                f.write(CHILD % {"lib": os.path.join(env.VERIF, "lib"), "src": env.PROV_SRC, "prog": prog, "cwd": box, "arg": arg, "fmt": fmt, "kw": case.get("kw") or {}})
            e = dict(os.environ)
            e["TMPDIR"] = os.path.join(work, "tmp")
            os.makedirs(e["TMPDIR"], exist_ok=True)
            e["HOME"] = e["TMPDIR"]
            e["PYTHONDONTWRITEBYTECODE"] = "1"

            def child(inject=None):
                cmd = [env.PYTHON, script]
                if inject:
                    cmd = [ctx.strace, "-f", "-qq", "-o", os.path.join(work, "strace.out"), "-e", "trace=%s" % inject.split(":")[0], "-e", "inject=%s" % inject] + cmd
                return subprocess.run(cmd, env=e, capture_output=True, timeout=120)

            def reset():
                for p in os.listdir(box):
                    q = os.path.join(box, p)
                    if os.path.islink(q) or not os.path.isdir(q):
                        os.remove(q)
                    else:
                        shutil.rmtree(q)
                resolve_name(case["name"] if case["name"] not in ("file:REL",) else "plain.out", box)   # re-creates sub-directories / links
                if case["present"] and case["name"] != "SYMLINK-TO-DIR":
                    with open(dest, "wb") as f:
                        f.write(PREV)

            # clean run (counts the syscalls of interest)
            reset()
            p = subprocess.run([ctx.strace, "-f", "-qq", "-o", os.path.join(work, "clean.out"), "-e", "trace=write,rename,renameat,renameat2,openat", env.PYTHON, script],
                               env=e, capture_output=True, timeout=120)
            if p.returncode != 0:
                if b"ptrace" in p.stderr or b"PTRACE" in p.stderr or b"Operation not permitted" in p.stderr:
                    ctx.count("strace_not_permitted")
                    return injected
                ctx.count("oslevel.clean_run_failed")
                continue
            if not os.path.isfile(dest):
                problems.append({"fault": "os:clean", "problem": "child wrote nothing to %r" % dest})
                return injected
            full = open(dest, "rb").read()
            trace = open(os.path.join(work, "clean.out"), errors="replace").read().splitlines()
            rel = lambda s: (box in s) or (e["TMPDIR"] in s)
            n_write = sum(1 for l in trace if " write(" in l or l.split(" ", 1)[-1].startswith("write("))
            n_ren = sum(1 for l in trace if "rename" in l.split("(")[0])
            n_open = sum(1 for l in trace if "openat(" in l and rel(l))
            total_open = sum(1 for l in trace if "openat(" in l)
            ctx.count("oslevel.clean_runs")
            plans = []
            for k in range(1, n_write + 1):
                plans.append("write:error=ENOSPC:when=%d" % k)
                plans.append("write:signal=SIGKILL:when=%d" % k)
            for sc in ("rename", "renameat", "renameat2"):
                for k in range(1, n_ren + 1):
                    plans.append("%s:error=EIO:when=%d" % (sc, k))
                    plans.append("%s:signal=SIGKILL:when=%d" % (sc, k))
            # openat of files in the destination / temp directory are the last ones of the process
            for k in range(max(1, total_open - n_open - 1), total_open + 1):
                plans.append("openat:error=EACCES:when=%d" % k)
            for inj in plans:
                reset()
                before = (open(dest, "rb").read() if os.path.isfile(dest) else None)
                try:
                    p = child(inj)
                except subprocess.TimeoutExpired:
                    ctx.count("oslevel.timeout")
                    continue
                after = (open(dest, "rb").read() if os.path.isfile(dest) else None)
                injected += 1
                ctx.count("oslevel.faults.%s.%s" % (fs_name, inj.split(":")[0] + ("/kill" if "SIGKILL" in inj else "/err")))
                if after != before and not (after is not None and same_serialisation(fmt, after, full, None)):
                    problems.append({"fault": "os:%s:%s" % (fs_name, inj), "problem": "after the fault the destination holds %s; before it %s; a complete serialisation has %d bytes"
                                     % ("nothing" if after is None else "%d bytes" % len(after), "was absent" if before is None else "held %d bytes" % len(before), len(full)),
                                     "child_stderr": p.stderr.decode(errors="replace")[-300:]})
                    return injected
                if p.returncode == 0 and after is not None and after != before:
                    ctx.count("oslevel.completed_despite_fault")
        finally:
            shutil.rmtree(work, ignore_errors=True)
            shutil.rmtree(box, ignore_errors=True)
    return injected


def judge(ctx, idx, case):
    ctx.hub.context = {"check": ID, "idx": idx}
    problems = []
    injected = run_inprocess(ctx, case, problems)
    if not problems and case.get("oslevel"):
        injected += run_oslevel(ctx, case, problems)
    ctx.count("name.%s" % case["name"])
    ctx.count("format.%s" % case["fmt"])
    ctx.count("destination.%s" % ("present" if case["present"] else "absent"))
    ctx.hub.drain()
    if problems:
        ctx.violation(idx, "serialize(%r, format=%s, destination %s) under %s: %s" % (case["name"], case["fmt"], "present" if case["present"] else "absent",
                                                                                      problems[0].get("fault") or "no fault", problems[0]["problem"]),
                      case, {"problems": problems[:3]})
    if injected:
        ctx.hashes.add(gen.case_hash([gen.case_hash(case["ops"]), case["fmt"], case["name"], case["present"]]))
        ctx.sample({"format": case["fmt"], "name": case["name"], "present": case["present"], "faults_injected": injected, "records": len(case["ops"])}, limit=4)
    ctx.count("faults_injected_total", injected)


def run_case(ctx, idx):
    judge(ctx, idx, make_case(ctx, idx))


def replay(ctx, rec):
    judge(ctx, rec["idx"], rec["payload"])


def floors(counters, tier, extra):
    out = []
    need = 20 if tier == "quick" else 200
    for k in ("clean_runs", "faults.write", "faults.quota", "faults.move", "faults.line"):
        if counters.get(k, 0) < need * 4:
            out.append("%s only %d" % (k, counters.get(k, 0)))
    for n in NAMES:
        if counters.get("name." + n, 0) < 2:
            out.append("file name kind %r used only %d times" % (n, counters.get("name." + n, 0)))
    if counters.get("failpoint_not_reached", 0) > counters.get("faults.line", 1) * 0.6:
        out.append("most LINE failpoints were never reached")
    if not counters.get("strace_unavailable") and not counters.get("strace_not_permitted"):
        for k in ("oslevel.faults.same_fs.write/err", "oslevel.faults.same_fs.write/kill", "oslevel.faults.other_fs.write/kill"):
            if counters.get(k, 0) < need // 2:
                out.append("%s only %d" % (k, counters.get(k, 0)))
        if sum(v for k, v in counters.items() if k.startswith("oslevel.faults.") and "rename" in k) < need:
            out.append("too few rename faults")
    elif tier == "thorough":
        out.append("strace is unavailable or not permitted: the OS-level fault plan did not run")
    out.extend(common.cov_floor(extra))
    return out


TECHNIQUE = "runtime monitoring with fault injection: audit-hook + directory-state monitor under enumerated write/move/line failpoints and strace syscall faults (errors and SIGKILL)"
LEVEL_TEXT = ("Fault enumeration under a file-system monitor: for documents x formats x file-name kinds x {destination absent, present}, a clean run is "
              "checked for exactness (only the named file changes; its bytes are the serialisation) and then every fault of the plan is injected: "
              "the k-th write of the underlying stream for every k, the final move, a failpoint at every statement boundary of the path branch "
              "(sys.monitoring), and at OS level an error or SIGKILL at every write / rename / openat system call (strace -e inject), with the "
              "destination on the temp directory's file system and on another one. After each failure the named file must hold its previous bytes "
              "(or still be absent) or, if the call completed, the complete serialisation."
              " Serializer options travel with the call; in-process bytes are compared strictly; destinations include directories, links to directories, path-like objects and a directory called ~; previous content may be the same text with other line ends; documents range up to several hundred KiB; KeyboardInterrupt is injected as well.")
LEVEL_NOTE = ("Trusted: the before/after listings and hashes, strace's fault injection. Complete with respect to the enumerated fault points of the "
              "observed executions, not to power loss (no fsync is claimed).")
DESIGN_REF = "DESIGN.md section 5 (FS) and section 6, C17"
