"""Small executable reference models over *snapshots* (never over library objects).

Record key = (type URI, identifier URI | None, ((attr URI, value key), count)...) as produced by pv.strict.
"""
import collections

from pv import strict
from pv.monitors import FORMAL, PROVNS

MEMBERSHIP = PROVNS + "Membership"


def attrs_of(rk):
    return [(a, v) for (a, v), n in rk[2] for _ in range(n)]


def mk_key(t, i, pairs):
    c = collections.Counter(pairs)
    return (t, i, tuple(sorted(c.items(), key=repr)))


def _same_value(v1, v2):
    """Python equality as the single-value guard sees it (URI for references, instant for aware datetimes)."""
    return strict.collapse_vkey(v1) == strict.collapse_vkey(v2)


def unify_bundle(ordered_keys):
    """Model of unified() on one container.
    Returns (result list of record keys in first-occurrence order, conflict: bool, membership_conflict: bool)."""
    groups = collections.OrderedDict()
    for pos, rk in enumerate(ordered_keys):
        t, i, _ = rk
        if i is None:
            groups[("anon", pos)] = [rk]
        else:
            groups.setdefault((t, i), []).append(rk)
    out, conflict, mconflict = [], False, False
    for g, rks in groups.items():
        if g[0] == "anon" or len(rks) == 1:
            out.append(rks[0])
            continue
        t, i = g
        merged = []
        for rk in rks:
            for a, v in attrs_of(rk):
                if not any(a == a2 and v == v2 for a2, v2 in merged):
                    if not any(a == a2 and _same_value(v, v2) for a2, v2 in merged):
                        merged.append((a, v))
        for a in {a for a, _ in merged}:
            if a in FORMAL and len([1 for a2, _v in merged if a2 == a]) > 1:
                # more than one distinct value: does it stem from *different* records of the group?
                per_record = [{strict.collapse_vkey(v) for a2, v in attrs_of(rk) if a2 == a} for rk in rks]
                first = per_record[0]
                if any(vals - first for vals in per_record[1:]):
                    if t == MEMBERSHIP:
                        mconflict = True
                    else:
                        conflict = True
        out.append(mk_key(t, i, merged))
    return out, conflict, mconflict


def unify(ordered_doc):
    """ordered_doc: [(bundle URI | None, [record keys])] as produced by strict.ordered()."""
    res, conflict, mconflict = [], False, False
    for b, keys in ordered_doc:
        o, c, m = unify_bundle(keys)
        res.append((b, o))
        conflict |= c
        mconflict |= m
    return res, conflict, mconflict


def setlike(rk):
    """Record key with attribute multiplicities dropped (values are held in sets by the library)."""
    t, i, attrs = rk
    return (t, i, frozenset(a for a, _n in attrs))


def flatten(snap):
    total = collections.Counter()
    for c in snap.values():
        total += c
    return total
