"""Independent PROV-N reader: a hand-written recursive-descent parser of the W3C PROV-N grammar
(document/bundle framing, default/prefix declarations and their scoping, the 18 expressions with `id;` and `-`
markers where the grammar puts them, attribute lists, string / long-string / int / typed / language-tagged /
qualified-name literals with the grammar's escapes).  Shares no code with the library.
read(text) -> (snapshot, notes); a text the grammar rejects raises ProvNSyntaxError."""
import collections
import re

from pv.readers.common import PROV, XSD, ReaderError, dt_key, lang_value, mk_key, typed_value


class ProvNSyntaxError(ReaderError):
    pass

# expression name -> (kind, has_optional_id, [(formal, mandatory, is_time)], attrs_allowed, optional_group_from)
EXPR = {
    "entity": ("Entity", False, [], True, None),
    "agent": ("Agent", False, [], True, None),
    "activity": ("Activity", False, [("startTime", False, True), ("endTime", False, True)], True, 0),
    "wasGeneratedBy": ("Generation", True, [("entity", True, False), ("activity", False, False), ("time", False, True)], True, 1),
    "used": ("Usage", True, [("activity", True, False), ("entity", False, False), ("time", False, True)], True, 1),
    "wasInformedBy": ("Communication", True, [("informed", True, False), ("informant", True, False)], True, None),
    "wasStartedBy": ("Start", True, [("activity", True, False), ("trigger", False, False), ("starter", False, False), ("time", False, True)], True, 1),
    "wasEndedBy": ("End", True, [("activity", True, False), ("trigger", False, False), ("ender", False, False), ("time", False, True)], True, 1),
    "wasInvalidatedBy": ("Invalidation", True, [("entity", True, False), ("activity", False, False), ("time", False, True)], True, 1),
    "wasDerivedFrom": ("Derivation", True, [("generatedEntity", True, False), ("usedEntity", True, False), ("activity", False, False), ("generation", False, False), ("usage", False, False)], True, 2),
    "wasAttributedTo": ("Attribution", True, [("entity", True, False), ("agent", True, False)], True, None),
    "wasAssociatedWith": ("Association", True, [("activity", True, False), ("agent", False, False), ("plan", False, False)], True, 1),
    "actedOnBehalfOf": ("Delegation", True, [("delegate", True, False), ("responsible", True, False), ("activity", False, False)], True, 2),
    "wasInfluencedBy": ("Influence", True, [("influencee", True, False), ("influencer", True, False)], True, None),
    "alternateOf": ("Alternate", False, [("alternate1", True, False), ("alternate2", True, False)], False, None),
    "specializationOf": ("Specialization", False, [("specificEntity", True, False), ("generalEntity", True, False)], False, None),
    "mentionOf": ("Mention", False, [("specificEntity", True, False), ("generalEntity", True, False), ("bundle", True, False)], False, None),
    "hadMember": ("Membership", False, [("collection", True, False), ("entity", True, False)], False, None),
}

PN_CHARS_BASE = r"A-Za-zÀ-ÖØ-öø-˿Ͱ-ͽͿ-῿‌-‍⁰-↏Ⰰ-⿯、-퟿豈-﷏ﷰ-�\U00010000-\U000EFFFF"
PN_CHARS_U = PN_CHARS_BASE + "_"
PN_CHARS = PN_CHARS_U + r"\-0-9·̀-ͯ‿-⁀"
PN_PREFIX = r"[%s](?:[%s.]*[%s])?" % (PN_CHARS_BASE, PN_CHARS, PN_CHARS)
OTHERS = r"(?:[/@~&+*?#$!]|%%[0-9A-Fa-f]{2}|\\[=\'(),\-:;\[\].])"
PN_LOCAL = r"(?:[%s0-9]|%s)(?:(?:[%s.]|%s)*(?:[%s]|%s))?" % (PN_CHARS_U, OTHERS, PN_CHARS, OTHERS, PN_CHARS, OTHERS)
QNAME = r"(?:(?:%s):(?:%s)?|%s)" % (PN_PREFIX, PN_LOCAL, PN_LOCAL)
DATETIME = r"-?[0-9]{4,}-[0-9]{2}-[0-9]{2}T[0-9]{2}:[0-9]{2}:[0-9]{2}(?:\.[0-9]+)?(?:Z|[+\-][0-9]{2}:[0-9]{2})?"
TOKEN = re.compile(r"""
  (?P<ws>\s+|//[^\n]*|/\*.*?\*/)
 |(?P<long>\"\"\"(?:(?:\"|\"\")?(?:[^\"\\]|\\[tbnrf\\\"\']))*\"\"\")
 |(?P<str>\"(?:[^\"\\\n\r]|\\[tbnrf\\\"\'])*\")
 |(?P<qlit>'%s')
 |(?P<iri><[^<>\"{}|^`\\\x00-\x20]*>)
 |(?P<dt>%s)
 |(?P<lang>@[a-zA-Z]+(?:-[a-zA-Z0-9]+)*)
 |(?P<tt>%%%%)
 |(?P<int>-?[0-9]+(?![%s:.0-9]))
 |(?P<punct>[(),;\[\]=\-])
 |(?P<qn>%s)
""" % (QNAME, DATETIME, PN_CHARS, QNAME), re.X | re.S)

KEYWORDS = {"document", "endDocument", "bundle", "endBundle", "prefix", "default"}


def tokenize(text):
    pos, out = 0, []
    while pos < len(text):
        m = TOKEN.match(text, pos)
        if not m:
            raise ProvNSyntaxError("cannot tokenize at %d: %r" % (pos, text[pos:pos + 40]))
        k = m.lastgroup
        if k != "ws":
            out.append((k, m.group(k), pos))
        pos = m.end()
    return out


def unescape_string(tok):
    body = tok[3:-3] if tok.startswith('"""') else tok[1:-1]
    m = {"t": "\t", "b": "\b", "n": "\n", "r": "\r", "f": "\f", "\\": "\\", '"': '"', "'": "'"}
    return re.sub(r"\\(.)", lambda x: m[x.group(1)], body, flags=re.S)


def unescape_local(s):
    return re.sub(r"\\(.)", r"\1", s)


class Parser:
    def __init__(self, text):
        self.t = tokenize(text)
        self.i = 0

    def peek(self, k=0):
        return self.t[self.i + k] if self.i + k < len(self.t) else ("eof", "", -1)

    def next(self):
        tok = self.peek(); self.i += 1; return tok

    def expect(self, kind, val=None):
        tok = self.next()
        if tok[0] != kind or (val is not None and tok[1] != val):
            raise ProvNSyntaxError("expected %s %r, got %r" % (kind, val, tok))
        return tok

    def kw(self, word):
        tok = self.peek()
        return tok[0] == "qn" and tok[1] == word

    def parse(self):
        self.expect("qn", "document")
        doc = {"ns": self.decls(), "records": [], "bundles": []}
        while not self.kw("endDocument") and not self.kw("bundle"):
            doc["records"].append(self.expression())
        while self.kw("bundle"):
            self.next()
            bid = self.expect("qn")[1]
            b = {"id": bid, "ns": self.decls(), "records": []}
            while not self.kw("endBundle"):
                b["records"].append(self.expression())
            self.next()
            doc["bundles"].append(b)
        self.expect("qn", "endDocument")
        if self.peek()[0] != "eof":
            raise ProvNSyntaxError("trailing tokens")
        return doc

    def decls(self):
        ns = {"default": None, "prefixes": {}}
        if self.kw("default"):
            self.next(); ns["default"] = self.expect("iri")[1][1:-1]
        while self.kw("prefix"):
            self.next(); p = self.expect("qn")[1]
            if not re.fullmatch(PN_PREFIX, p):
                raise ProvNSyntaxError("bad prefix %r" % p)
            if p in ns["prefixes"]:
                raise ProvNSyntaxError("prefix declared twice %r" % p)
            ns["prefixes"][p] = self.expect("iri")[1][1:-1]
        if self.kw("default"):
            raise ProvNSyntaxError("default declaration must come first")
        return ns

    def ident_or_marker(self):
        tok = self.next()
        if tok[0] == "punct" and tok[1] == "-":
            return None
        if tok[0] == "int" and tok[1].isdigit():
            return tok[1]      # PN_LOCAL may consist of digits only: in an identifier position '007' is the unprefixed name 007
        if tok[0] != "qn" or tok[1] in KEYWORDS:
            raise ProvNSyntaxError("identifier expected, got %r" % (tok,))
        return tok[1]

    def time_or_marker(self):
        tok = self.next()
        if tok[0] == "punct" and tok[1] == "-":
            return None
        if tok[0] != "dt":
            raise ProvNSyntaxError("time expected, got %r" % (tok,))
        return tok[1]

    def expression(self):
        name = self.expect("qn")[1]
        if name not in EXPR:
            raise ProvNSyntaxError("unknown expression %r" % name)
        kind, has_id, formals, attrs_ok, optfrom = EXPR[name]
        self.expect("punct", "(")
        rid = None
        if has_id:
            # lookahead: identifierOrMarker ';'
            if self.peek(1) == ("punct", ";", self.peek(1)[2]):
                rid = self.ident_or_marker(); self.expect("punct", ";")
        else:
            if kind in ("Entity", "Agent", "Activity"):
                rid = self.ident_or_marker()
                if rid is None:
                    raise ProvNSyntaxError("element needs identifier")
        args = {}
        first = kind in ("Entity", "Agent", "Activity")
        n = len(formals)
        idx = 0
        while idx < n:
            f, mandatory, is_time = formals[idx]
            # optional group may be entirely absent
            if optfrom is not None and idx == optfrom:
                nxt = self.peek()
                if nxt[0] == "punct" and nxt[1] == ")":
                    break
                if nxt[0] == "punct" and nxt[1] == "," and self.peek(1)[0] == "punct" and self.peek(1)[1] == "[":
                    break
            if first or idx > 0:
                self.expect("punct", ",")
            v = self.time_or_marker() if is_time else self.ident_or_marker()
            if v is None and mandatory:
                raise ProvNSyntaxError("mandatory argument %s of %s is a marker" % (f, name))
            if v is not None:
                args[f] = v
            idx += 1
        attrs = []
        if self.peek()[0] == "punct" and self.peek()[1] == ",":
            if not attrs_ok:
                raise ProvNSyntaxError("%s takes no attributes" % name)
            self.next(); self.expect("punct", "[")
            if not (self.peek()[0] == "punct" and self.peek()[1] == "]"):
                while True:
                    a = self.expect("qn")[1]; self.expect("punct", "=")
                    attrs.append((a, self.literal()))
                    if self.peek()[0] == "punct" and self.peek()[1] == ",":
                        self.next(); continue
                    break
            self.expect("punct", "]")
        self.expect("punct", ")")
        return {"kind": kind, "id": rid, "args": args, "attrs": attrs}

    def literal(self):
        tok = self.next()
        if tok[0] in ("str", "long"):
            s = unescape_string(tok[1])
            nx = self.peek()
            if nx[0] == "tt":
                self.next(); return ("typed", s, self.expect("qn")[1])
            if nx[0] == "lang":
                self.next(); return ("lang", s, nx[1][1:])
            return ("typed", s, "xsd:string")
        if tok[0] == "int":
            return ("typed", tok[1], "xsd:int")
        if tok[0] == "qlit":
            return ("qn", tok[1][1:-1])
        raise ProvNSyntaxError("literal expected, got %r" % (tok,))


# ---- resolution to a strict snapshot -------------------------------------------------------------
def resolve(q, scopes):
    """scopes: innermost first, each {'default':..,'prefixes':{..}}"""
    if ":" in q:
        p, l = q.split(":", 1)
        for s in scopes:
            if p in s["prefixes"]:
                return s["prefixes"][p] + unescape_local(l)
        if p == "prov":
            return PROV + unescape_local(l)
        if p == "xsd":
            return XSD + unescape_local(l)
        raise ProvNSyntaxError("undeclared prefix %r in %r" % (p, q))
    for s in scopes:
        if s["default"]:
            return s["default"] + unescape_local(q)
    raise ProvNSyntaxError("no default namespace for %r" % q)


def value_key(lit, scopes):
    if lit[0] == "qn":
        return ("qn", resolve(lit[1], scopes))
    if lit[0] == "lang":
        return lang_value(lit[1], lit[2])
    _, s, dtq = lit
    try:
        return typed_value(s, resolve(dtq, scopes))
    except ProvNSyntaxError:
        raise
    except (ReaderError, ValueError) as e:
        raise ProvNSyntaxError("literal %r %%%% %s is not in the lexical space of its datatype: %s" % (s, dtq, e))


def read(text):
    doc = Parser(text).parse()
    out, notes = {}, {"ambiguous_bundle_ids": [], "bundle_ids_outside_document_scope": []}

    def recs(container, scopes):
        c = collections.Counter()
        for r in container["records"]:
            pairs = []
            for f, v in r["args"].items():
                pairs.append((PROV + f, dt_key(v) if f in ("time", "startTime", "endTime") else ("qn", resolve(v, scopes))))
            for a, lit in r["attrs"]:
                pairs.append((resolve(a, scopes), value_key(lit, scopes)))
            c[mk_key(r["kind"], resolve(r["id"], scopes) if r["id"] else None, pairs)] += 1
        return c

    out[None] = recs(doc, [doc["ns"]])
    for b in doc["bundles"]:
        scopes = [b["ns"], doc["ns"]]
        in_b = in_d = None
        try:
            in_b = resolve(b["id"], scopes)
        except ProvNSyntaxError:
            pass
        try:
            in_d = resolve(b["id"], [doc["ns"]])
        except ProvNSyntaxError:
            pass
        if in_b is None and in_d is None:
            raise ProvNSyntaxError("bundle identifier %r cannot be resolved" % b["id"])
        if in_b and in_d and in_b != in_d:
            notes["ambiguous_bundle_ids"].append([b["id"], in_b, in_d])
        if in_d is None:
            # the identifier stands before the bundle's own declarations: the grammar scopes those to the bundle's content
            notes["bundle_ids_outside_document_scope"].append([b["id"], in_b])
        key = in_b or in_d
        if key in out:
            raise ProvNSyntaxError("two bundles denote <%s>" % key)
        out[key] = recs(b, scopes)
    return out, notes
