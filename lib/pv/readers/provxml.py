"""Independent PROV-XML reader + structural validator (xml.etree + its own in-scope namespace stack).
Written from the PROV-XML note; shares no code with the library.  read(text|bytes) -> (snapshot, notes)
"""
import collections
import io
import xml.etree.ElementTree as ET

from pv.readers.common import (ALL_FORMALS, BY_NAME, KINDS, PROV, REF_FORMALS, TIME_FORMALS, XML_SUBTYPES, XSD, XSI, ReaderError, dt_key,
                               lang_value, mk_key, typed_value)

XSD_NOHASH = "http://www.w3.org/2001/XMLSchema"
XMLNS = "http://www.w3.org/XML/1998/namespace"
P = "{%s}" % PROV
GENERIC_ORDER = ["label", "location", "role", "type", "value"]


def _parse(data):
    """ElementTree with, for every element, the namespace bindings in scope (prefix -> uri, '' = default)."""
    if isinstance(data, str):
        enc = _declared_encoding(data) if data.lstrip().startswith("<?xml") else "utf-8"
        try:
            data = data.encode(enc)
        except (UnicodeEncodeError, LookupError) as e:
            raise ReaderError("text contains characters outside its declared encoding %s: %s" % (enc, e))
    scopes = {}
    stack = [{"xml": XMLNS}]
    pending = {}
    root = None
    try:
        for ev, x in ET.iterparse(io.BytesIO(data), events=("start-ns", "start", "end")):
            if ev == "start-ns":
                pending[x[0]] = x[1]
            elif ev == "start":
                cur = dict(stack[-1])
                cur.update(pending)
                pending = {}
                stack.append(cur)
                scopes[x] = cur
                if root is None:
                    root = x
            else:
                stack.pop()
    except ET.ParseError as e:
        raise ReaderError("not well-formed XML: %s" % e)
    return root, scopes


def _declared_encoding(s):
    import re
    m = re.search(r"encoding=[\"']([A-Za-z0-9._-]+)[\"']", s.split("?>")[0])
    return m.group(1) if m else "utf-8"


def _qname(q, scope, what):
    """QName in content (prov:id, prov:ref, xsi:type, xsd:QName text) -> URI using the in-scope bindings."""
    if q is None:
        raise ReaderError("missing QName for %s" % what)
    q = q.strip()
    if ":" in q:
        p, l = q.split(":", 1)
        if p in scope:
            u = scope[p]
            if u == XSD_NOHASH:
                u = XSD
            return u + l
        raise ReaderError("prefix %r of %s %r is not in scope" % (p, what, q))
    if scope.get(""):
        return scope[""] + q
    raise ReaderError("no default namespace in scope for %s %r" % (what, q))


def _tag_uri(tag):
    if tag.startswith("{"):
        ns, local = tag[1:].split("}", 1)
        return ns, local
    return "", tag


def read_records(parent, scopes, problems):
    recs = collections.Counter()
    for el in parent:
        ns, local = _tag_uri(el.tag)
        if ns != PROV:
            raise ReaderError("non-PROV element <%s> among the records" % el.tag)
        if local == "bundleContent":
            continue
        if local == "other":
            continue
        if local in BY_NAME:
            kind, subtype = BY_NAME[local], None
        elif local in XML_SUBTYPES:
            kind, subtype = XML_SUBTYPES[local]
        else:
            raise ReaderError("unknown record element prov:%s" % local)
        sc = scopes[el]
        ident = None
        for k in el.attrib:
            if k == P + "id":
                ident = _qname(el.attrib[k], sc, "prov:id")
            elif k == "{%s}type" % XSI:
                pass
            else:
                problems.append("unexpected attribute %s on prov:%s" % (k, local))
        if kind in ("Entity", "Activity", "Agent") and ident is None:
            raise ReaderError("prov:%s without prov:id" % local)
        formals = KINDS[kind][1]
        pairs, order = [], []
        for ch in el:
            cns, cl = _tag_uri(ch.tag)
            auri = cns + cl
            csc = scopes[ch]
            if len(ch):
                raise ReaderError("attribute element <%s> has child elements" % ch.tag)
            text = ch.text if ch.text is not None else ""
            ref = ch.attrib.get(P + "ref")
            xtype = ch.attrib.get("{%s}type" % XSI)
            lang = ch.attrib.get("{%s}lang" % XMLNS)
            for k in ch.attrib:
                if k not in (P + "ref", "{%s}type" % XSI, "{%s}lang" % XMLNS):
                    problems.append("unexpected attribute %s on <%s>" % (k, ch.tag))
            is_formal = cns == PROV and cl in ALL_FORMALS
            if is_formal and cl in REF_FORMALS:
                if ref is None:
                    raise ReaderError("reference child prov:%s lacks prov:ref" % cl)
                if text.strip():
                    problems.append("reference child prov:%s has text" % cl)
                if cl not in formals:
                    problems.append("reference child prov:%s on prov:%s" % (cl, local))
                pairs.append((auri, ("qn", _qname(ref, csc, "prov:ref"))))
                order.append(("formal", cl))
                continue
            if ref is not None:
                problems.append("prov:ref on the non-reference child <%s>" % ch.tag)
            if is_formal and cl in TIME_FORMALS:
                if xtype is not None and _qname(xtype, csc, "xsi:type") != XSD + "dateTime":
                    problems.append("time child prov:%s typed %s" % (cl, xtype))
                pairs.append((auri, dt_key(text)))
                order.append(("formal", cl))
                continue
            order.append(("generic", cl) if cns == PROV and cl in GENERIC_ORDER else ("other", auri))
            if lang is not None:
                if xtype is not None and _qname(xtype, csc, "xsi:type") != PROV + "InternationalizedString":
                    problems.append("xml:lang together with xsi:type=%s" % xtype)
                pairs.append((auri, lang_value(text, lang)))
            elif xtype is not None:
                dturi = _qname(xtype, csc, "xsi:type")
                if dturi == XSD + "QName":
                    pairs.append((auri, ("qn", _qname(text, csc, "xsd:QName content"))))
                else:
                    pairs.append((auri, typed_value(text, dturi)))
            else:
                pairs.append((auri, ("str", text)))
        # schema child order: formal children first in formal order, then label, location, role, type, value, then others
        rank = []
        for kind_, name in order:
            if kind_ == "formal":
                rank.append((0, formals.index(name) if name in formals else 99))
            elif kind_ == "generic":
                rank.append((1, GENERIC_ORDER.index(name)))
            else:
                rank.append((2, 0))
        if rank != sorted(rank):
            problems.append("children of prov:%s are not in schema order: %s" % (local, [n for _k, n in order]))
        if subtype:
            pairs.append((PROV + "type", ("qn", PROV + subtype)))
        xt = el.attrib.get("{%s}type" % XSI)
        if xt is not None:
            pairs.append((PROV + "type", ("qn", _qname(xt, sc, "xsi:type"))))
        recs[mk_key(kind, ident, pairs)] += 1
    return recs


def read(data):
    root, scopes = _parse(data)
    if root is None or root.tag != P + "document":
        raise ReaderError("root element is not prov:document")
    problems = []
    snap = {None: read_records(root, scopes, problems)}
    for el in root:
        if el.tag == P + "bundleContent":
            bid = el.attrib.get(P + "id")
            if bid is None:
                raise ReaderError("prov:bundleContent without prov:id")
            uri = _qname(bid, scopes[el], "bundle prov:id")
            if uri in snap:
                raise ReaderError("two bundles denote <%s>" % uri)
            for sub in el:
                if sub.tag == P + "bundleContent":
                    raise ReaderError("nested bundleContent")
            snap[uri] = read_records(el, scopes, problems)
    return snap, {"structural_problems": problems}
