"""Independent PROV-JSON reader + structural validator, written from the PROV-JSON member submission.
Shares no code with the library.  read(text) -> ({bundle URI | None: Counter(record key)}, notes)
"""
import collections
import json

from pv.readers.common import (ALL_FORMALS, BY_NAME, KINDS, PROV, REF_FORMALS, TIME_FORMALS, XSD, XSI, ReaderError, dt_key, lang_value,
                               mk_key, typed_value)

BUILTIN = {"prov": PROV, "xsd": XSD, "xsi": XSI}


class Scope:
    def __init__(self, block, parent=None):
        self.parent = parent
        self.prefixes = {}
        self.default = None
        if block is not None:
            if not isinstance(block, dict):
                raise ReaderError("'prefix' must be an object")
            for p, u in block.items():
                if not isinstance(u, str) or not u:
                    raise ReaderError("namespace of prefix %r is not a non-empty string" % p)
                if p == "default":
                    self.default = u
                else:
                    self.prefixes[p] = u

    def lookup(self, p):
        s = self
        while s is not None:
            if p in s.prefixes:
                return s.prefixes[p]
            s = s.parent
        return BUILTIN.get(p)

    def default_uri(self):
        s = self
        while s is not None:
            if s.default:
                return s.default
            s = s.parent
        return None

    def resolve(self, q):
        if not isinstance(q, str) or not q:
            raise ReaderError("qualified name expected, got %r" % (q,))
        if ":" in q:
            p, l = q.split(":", 1)
            u = self.lookup(p)
            if u is not None:
                return u + l
            raise ReaderError("prefix %r of %r is not declared" % (p, q))
        d = self.default_uri()
        if d is None:
            raise ReaderError("no default namespace for the unprefixed name %r" % q)
        return d + q


def value_key(v, scope, problems=None):
    if isinstance(v, bool):
        return ("bool", v)
    if isinstance(v, int):
        return ("int", v)
    if isinstance(v, float):
        return ("float", repr(v))
    if isinstance(v, str):
        return ("str", v)
    if isinstance(v, dict):
        extra = set(v) - {"$", "type", "lang"}
        if extra:
            raise ReaderError("typed literal object has unknown members %s" % sorted(extra))
        if "$" not in v:
            raise ReaderError("typed literal object lacks '$'")
        if "lang" in v:
            if "type" in v:
                if scope.resolve(v["type"]) != PROV + "InternationalizedString":
                    raise ReaderError("language-tagged literal typed %r" % (v["type"],))
                if problems is not None:
                    problems.append("typed literal object has both 'type' and 'lang'")
            if not isinstance(v["$"], str) or not isinstance(v["lang"], str):
                raise ReaderError("language-tagged literal must be a string with a string tag")
            return lang_value(v["$"], v["lang"])
        if "type" not in v:
            raise ReaderError("typed literal object lacks 'type'")
        dturi = scope.resolve(v["type"])
        raw = v["$"]
        if isinstance(raw, bool):
            lex = "true" if raw else "false"
        elif isinstance(raw, float):
            lex = repr(raw)
        else:
            lex = str(raw)
        return typed_value(lex, dturi, scope.resolve)
    raise ReaderError("unsupported JSON value %r" % (v,))


def read_container(obj, scope, problems, order=None):
    recs = collections.Counter()
    for key, block in obj.items():
        if key in ("prefix", "bundle"):
            continue
        if key not in BY_NAME:
            raise ReaderError("unknown top-level member %r" % key)
        kind = BY_NAME[key]
        formals = KINDS[kind][1]
        if not isinstance(block, dict):
            raise ReaderError("%r must be an object keyed by identifier" % key)
        for rid, content in block.items():
            ident = None if rid.startswith("_:") else scope.resolve(rid)
            if kind in ("Entity", "Activity", "Agent") and ident is None:
                raise ReaderError("%s without identifier" % key)
            items = content if isinstance(content, list) else [content]
            if isinstance(content, list) and len(content) == 0:
                raise ReaderError("empty record array for %r" % rid)
            for item in items:
                if not isinstance(item, dict):
                    raise ReaderError("record %r is not an object" % rid)
                pairs = []
                for an, av in item.items():
                    auri = scope.resolve(an)
                    if auri.startswith(PROV) and auri[len(PROV):] in ALL_FORMALS:
                        f = auri[len(PROV):]
                        if f not in formals:
                            problems.append("formal attribute %s on a %s" % (an, key))
                        vals = av if isinstance(av, list) else [av]
                        if len(vals) != 1 and not (kind == "Membership" and f == "entity"):
                            raise ReaderError("formal attribute %s of %r holds %d values" % (an, rid, len(vals)))
                        for v in vals:
                            if not isinstance(v, str):
                                raise ReaderError("formal attribute %s must be a string, got %r" % (an, v))
                            pairs.append((auri, dt_key(v) if f in TIME_FORMALS else ("qn", scope.resolve(v))))
                    else:
                        vals = av if isinstance(av, list) else [av]
                        if isinstance(av, list) and not av:
                            problems.append("empty value array for %s" % an)
                        for v in vals:
                            pairs.append((auri, value_key(v, scope, problems)))
                key = mk_key(kind, ident, pairs)
                recs[key] += 1
                if order is not None and kind == "Membership":
                    # document order of the listed members (a Counter key cannot carry it); used for the documented normalisation
                    order.setdefault(key, []).append([v[1] for a, v in pairs if a == PROV + "entity"])
    return recs


def read(text):
    """-> (snapshot, notes).  Raises ReaderError when the text is not PROV-JSON."""
    try:
        top = json.loads(text)
    except ValueError as e:
        raise ReaderError("not JSON: %s" % e)
    if not isinstance(top, dict):
        raise ReaderError("top level is not an object")
    problems, notes = [], {"ambiguous_bundle_ids": [], "membership_order": {}, "bundle_ids_outside_document_scope": []}
    dscope = Scope(top.get("prefix"))
    snap = {None: read_container(top, dscope, problems, notes["membership_order"].setdefault(None, {}))}
    bundles = top.get("bundle", {})
    if not isinstance(bundles, dict):
        raise ReaderError("'bundle' must be an object")
    for bid, bobj in bundles.items():
        if not isinstance(bobj, dict):
            raise ReaderError("bundle %r is not an object" % bid)
        if "bundle" in bobj:
            raise ReaderError("nested bundle in %r" % bid)
        bscope = Scope(bobj.get("prefix"), dscope)
        in_b = in_d = None
        try:
            in_b = bscope.resolve(bid)
        except ReaderError:
            pass
        try:
            in_d = dscope.resolve(bid)
        except ReaderError:
            pass
        if in_b is None and in_d is None:
            raise ReaderError("bundle identifier %r cannot be resolved" % bid)
        if in_b is not None and in_d is not None and in_b != in_d:
            notes["ambiguous_bundle_ids"].append([bid, in_b, in_d])
        if in_d is None:
            # the key sits in the document-level "bundle" object: a reader written from the specification resolves it there
            notes["bundle_ids_outside_document_scope"].append([bid, in_b])
        uri = in_b or in_d
        if uri in snap:
            raise ReaderError("two bundles denote <%s>" % uri)
        snap[uri] = read_container(bobj, bscope, problems, notes["membership_order"].setdefault(uri, {}))
    notes["structural_problems"] = problems
    return snap, notes
