"""Shared vocabulary of the independent readers.  Nothing in pv.readers imports the library under test."""
import collections
import datetime
import re

PROV = "http://www.w3.org/ns/prov#"
XSD = "http://www.w3.org/2001/XMLSchema#"
XSI = "http://www.w3.org/2001/XMLSchema-instance"

# record kind: expression name (PROV-N / PROV-JSON key), formal attributes in order
KINDS = collections.OrderedDict([
    ("Entity", ("entity", [])),
    ("Activity", ("activity", ["startTime", "endTime"])),
    ("Agent", ("agent", [])),
    ("Generation", ("wasGeneratedBy", ["entity", "activity", "time"])),
    ("Usage", ("used", ["activity", "entity", "time"])),
    ("Communication", ("wasInformedBy", ["informed", "informant"])),
    ("Start", ("wasStartedBy", ["activity", "trigger", "starter", "time"])),
    ("End", ("wasEndedBy", ["activity", "trigger", "ender", "time"])),
    ("Invalidation", ("wasInvalidatedBy", ["entity", "activity", "time"])),
    ("Derivation", ("wasDerivedFrom", ["generatedEntity", "usedEntity", "activity", "generation", "usage"])),
    ("Attribution", ("wasAttributedTo", ["entity", "agent"])),
    ("Association", ("wasAssociatedWith", ["activity", "agent", "plan"])),
    ("Delegation", ("actedOnBehalfOf", ["delegate", "responsible", "activity"])),
    ("Influence", ("wasInfluencedBy", ["influencee", "influencer"])),
    ("Specialization", ("specializationOf", ["specificEntity", "generalEntity"])),
    ("Alternate", ("alternateOf", ["alternate1", "alternate2"])),
    ("Mention", ("mentionOf", ["specificEntity", "generalEntity", "bundle"])),
    ("Membership", ("hadMember", ["collection", "entity"])),
])
BY_NAME = {v[0]: k for k, v in KINDS.items()}
TIME_FORMALS = {"time", "startTime", "endTime"}
REF_FORMALS = {f for _k, (_n, fs) in KINDS.items() for f in fs} - TIME_FORMALS
ALL_FORMALS = REF_FORMALS | TIME_FORMALS
# PROV-XML subtype elements: element name -> (base kind, prov:type local)
XML_SUBTYPES = {
    "wasRevisionOf": ("Derivation", "Revision"), "wasQuotedFrom": ("Derivation", "Quotation"),
    "hadPrimarySource": ("Derivation", "PrimarySource"), "softwareAgent": ("Agent", "SoftwareAgent"),
    "person": ("Agent", "Person"), "organization": ("Agent", "Organization"), "plan": ("Entity", "Plan"),
    "collection": ("Entity", "Collection"), "emptyCollection": ("Entity", "EmptyCollection"), "bundle": ("Entity", "Bundle"),
}


class ReaderError(Exception):
    """The text breaks a structural rule of its specification."""


_DT = re.compile(r"(-?[0-9]{4,})-([0-9]{2})-([0-9]{2})T([0-9]{2}):([0-9]{2}):([0-9]{2})(\.[0-9]+)?(Z|[+-][0-9]{2}:[0-9]{2}(?::[0-9]{2})?)?$")


def dt_key(s):
    """xsd:dateTime lexical form -> ('dt', naive iso, utc offset seconds | None)  (same shape as pv.strict.vkey)."""
    m = _DT.match(s.strip())
    if not m:
        raise ReaderError("not an xsd:dateTime: %r" % s)
    y, mo, d, h, mi, sec, frac, tz = m.groups()
    us = int(((frac or ".0")[1:] + "000000")[:6])
    dt = datetime.datetime(int(y), int(mo), int(d), int(h), int(mi), int(sec), us)
    off = None
    if tz:
        if tz == "Z":
            off = 0.0
        else:
            sign = 1 if tz[0] == "+" else -1
            parts = tz[1:].split(":")
            off = sign * (int(parts[0]) * 3600 + int(parts[1]) * 60 + (int(parts[2]) if len(parts) > 2 else 0)) * 1.0
    return ("dt", dt.isoformat(), off)


def typed_value(lex, dturi, resolve_qname=None):
    """Denotation of a (lexical form, datatype URI) pair as a strict value key."""
    if dturi == XSD + "string":
        return ("str", lex)
    if dturi in (XSD + "int", XSD + "long"):
        return ("int", int(lex))
    if dturi == XSD + "double":
        return ("float", repr(float(lex)))
    if dturi == XSD + "boolean":
        if lex not in ("true", "false", "1", "0"):
            raise ReaderError("not an xsd:boolean: %r" % lex)
        return ("bool", lex in ("true", "1"))
    if dturi == XSD + "dateTime":
        return dt_key(lex)
    if dturi == XSD + "anyURI":
        return ("uri", lex)
    if dturi == PROV + "QUALIFIED_NAME" and resolve_qname is not None:
        return ("qn", resolve_qname(lex))
    return ("lit", lex, dturi, None)


def lang_value(lex, lang):
    return ("lit", lex, PROV + "InternationalizedString", lang)


def mk_key(kind, ident, pairs):
    c = collections.Counter(pairs)
    return (PROV + kind, ident, tuple(sorted(c.items(), key=repr)))
