"""Interpreter: executes a generated program against the real prov API and records each outcome."""
import datetime

from pv import env

env.activate()

import prov.model as pm  # noqa: E402
from prov.constants import PROV, XSD  # noqa: E402
from prov.identifier import Identifier, Namespace, QualifiedName  # noqa: E402

from pv.gen import CONVENIENCE, KINDS, NO_ID_FACTORY, SUBTYPE_FACTORIES, TIME_ATTRS  # noqa: E402

REC_TYPES = {k: PROV[k] for k in KINDS}
ALIASES = {"generation": "wasGeneratedBy", "usage": "used", "start": "wasStartedBy", "end": "wasEndedBy", "invalidation": "wasInvalidatedBy",
           "communication": "wasInformedBy", "attribution": "wasAttributedTo", "association": "wasAssociatedWith",
           "delegation": "actedOnBehalfOf", "influence": "wasInfluencedBy", "derivation": "wasDerivedFrom", "revision": "wasRevisionOf",
           "quotation": "wasQuotedFrom", "primary_source": "hadPrimarySource", "alternate": "alternateOf",
           "specialization": "specializationOf", "mention": "mentionOf", "membership": "hadMember"}


def _style(label):
    """Deterministic call style of a factory call: bit0 alias method, bit1 keyword arguments, bit2 dict-form extras."""
    import zlib
    return zlib.crc32(label.encode("utf-8")) % 8


def _extras_arg(ex, style):
    if style & 4 and ex:
        d = {}
        for n, v in ex:
            if n in d:
                return ex          # an attribute with several values cannot be given as a dict
            d[n] = v
        return d
    return ex


# ---- legitimate but unusual argument types (deterministic per value, so that twins of a program get the same ones) ------------------
class OddStr(str):
    """A str subclass with its own __str__ / __format__ (as an Enum member that mixes in str has): its *characters* are the name."""

    def __str__(self):
        return "OddStr<%s>" % str.__str__(self)

    __format__ = lambda self, spec: "OddStr<%s>" % str.__str__(self)


class StrictStr(str):
    """A str subclass whose equality is type strict (as rdflib's terms are)."""

    def __eq__(self, other):
        return type(other) is StrictStr and str.__eq__(self, other)

    def __ne__(self, other):
        return not self.__eq__(other)

    __hash__ = str.__hash__


class SubInt(int):
    """An int subclass (as an IntEnum member or a numpy-style integer is)."""


class SubQN(QualifiedName):
    """A user subclass of QualifiedName."""


class AwareDT(datetime.datetime):
    """A datetime subclass (as pandas.Timestamp, pendulum.DateTime are)."""


# names that earlier documents of this process handed out (record identifiers as resolved by their containers): an application keeps
# such objects -- constants, look-up tables -- and uses them again with later documents, long after the first document has died
NAME_POOL = {}


FIRST_SEEN = {}        # program -> size of the pool when the program ran for the first time in this process


def _remember_name(q, prog):
    # remembered with the program it came from and its position: a program sees neither its own names nor names that joined the pool
    # after its first run, so every run of one program in this process makes the same choices (the pool only grows, up to a cap)
    if isinstance(q, QualifiedName) and q.uri not in NAME_POOL and len(NAME_POOL) < 20000:
        NAME_POOL[q.uri] = (q, prog, len(NAME_POOL))


def _pick(text, modulo):
    import zlib
    return zlib.crc32(text.encode("utf-8")) % modulo


class State:
    def __init__(self):
        self.doc = pm.ProvDocument()
        self.tg = {"D": self.doc}
        self.recs = {}        # label -> record object
        self.outcomes = []    # one per op
        self.bare_seen = set()
        self.results = {}     # op index -> result of observation ops
        self.dns_done = {}
        self.detached = set()  # stand-alone bundles not (yet) attached to the document
        self.standalone = set()  # every target that was created as a stand-alone ProvBundle
        self.intent_problems = []  # what the program asked for and did not get (judged by the checks that own the clause)
        self.nspool = {}
        self.style_xor = 0    # flips the call style of factory calls (route twins)

    def namespace(self, prefix, uri):
        """Programs reuse their Namespace objects (as users do: EX = Namespace('ex', ...); EX['a'], doc.add_namespace(EX)),
        for two out of three (prefix, uri) pairs; the rest get a fresh object each time."""
        key = (prefix, uri)
        import zlib
        if zlib.crc32(("%s|%s" % key).encode("utf-8")) % 3 == 0:
            return Namespace(prefix, uri)
        ns = self.nspool.get(key)
        if ns is None:
            ns = self.nspool[key] = Namespace(prefix, uri)
        return ns

    def mk_name(self, spec):
        if spec is None:
            return None
        f = spec["form"]
        if f == "qn":
            ns, local = self.namespace(spec["prefix"], spec["ns"]), spec["local"]
            how = _pick("%s|%s|%s" % (spec["prefix"], spec["ns"], local), 40)
            if how < 10:
                return QualifiedName(ns, local)        # minted directly: another object than ns[local] hands out
            if 12 <= how <= 17:
                old = NAME_POOL.get(spec["ns"] + local)
                if old is not None and old[1] != getattr(self, "prog", None) and getattr(self, "use_pool", True) \
                        and old[2] < FIRST_SEEN.get(getattr(self, "prog", None), 0):
                    return old[0]                           # the same name as an earlier (possibly dead) document resolved it
            if how == 10:
                return SubQN(ns, local)
            if how == 11 and spec.get("odd"):
                return ns[OddStr(local)]         # only where the generator asks for it (C03's namespace histories)
            return ns[local]
        if f == "xsd":
            return XSD[spec["local"]]
        if f == "prov":
            return PROV[spec["local"]]
        if f == "rec":
            return self.recs[spec["label"]]  # KeyError -> op skipped
        return spec["s"]

    def mk_value(self, spec):
        k = spec["k"]
        self.nvalues = getattr(self, "nvalues", 0) + 1      # the n-th value of the program (the same in every run of the program)
        if k == "str" and spec["v"] and self.nvalues % 17 == 0:
            return StrictStr(spec["v"])
        if k == "int" and self.nvalues % 13 == 0:
            return SubInt(spec["v"])
        if k in ("str", "int", "float", "bool"):
            return spec["v"]
        if k == "dt":
            d = mk_dt(spec)
            if d.tzinfo is not None and self.nvalues % 5 == 0:
                return AwareDT(d.year, d.month, d.day, d.hour, d.minute, d.second, d.microsecond, d.tzinfo)
            return d
        if k == "recval":
            return self.recs[spec["label"]]      # a record object as an attribute value: it stands for its identifier
        if k == "uri":
            return Identifier(spec["v"])
        if k == "qn":
            return self.mk_name(spec["name"])
        if k == "lang":
            if self.nvalues % 4 == 0:
                # the datatype given explicitly next to the tag (the constructor settles on prov:InternationalizedString either way)
                return pm.Literal(spec["v"], XSD["string"] if self.nvalues % 8 == 0 else PROV["InternationalizedString"], spec["lang"])
            return pm.Literal(spec["v"], langtag=spec["lang"])
        if k == "lit":
            # programs reuse their Literal objects (a constant such as Literal("12.5", UNITS["cm"]) used on many records, in several
            # bundles): two out of three equal specifications get the very same object
            import json
            key = json.dumps(spec, sort_keys=True)
            if _pick(key, 3) != 0:
                lit = self.litpool.get(key) if hasattr(self, "litpool") else None
                if lit is None:
                    if not hasattr(self, "litpool"):
                        self.litpool = {}
                    lit = self.litpool[key] = pm.Literal(spec["v"], self.mk_name(spec["dt"]))
                return lit
            return pm.Literal(spec["v"], self.mk_name(spec["dt"]))
        raise AssertionError(k)

    def mk_time(self, spec):
        if spec is None:
            return None
        dt = mk_dt(spec)
        if spec.get("as") != "iso" and dt.tzinfo is not None and _pick(spec["iso"], 12) == 0:
            return AwareDT(dt.year, dt.month, dt.day, dt.hour, dt.minute, dt.second, dt.microsecond, dt.tzinfo)
        return dt.isoformat() if spec.get("as") == "iso" else dt


def mk_dt(spec):
    dt = datetime.datetime.fromisoformat(spec["iso"])
    if spec.get("tz") is not None:
        dt = dt.replace(tzinfo=datetime.timezone(datetime.timedelta(minutes=spec["tz"])))
    return dt


def _has_local(x):
    if isinstance(x, dict):
        if x.get("form") == "local":
            return True
        return any(_has_local(v) for v in x.values())
    if isinstance(x, (list, tuple)):
        return any(_has_local(v) for v in x)
    return False


class Skip(Exception):
    pass


def exec_op(st, op):
    """Execute one operation. Returns the created/affected object (or None)."""
    k = op[0]
    if k in ("ns", "dns", "rec", "lookup", "vqn") and op[1] not in st.tg:
        raise Skip("no-target")
    if k == "ns":
        if op[2] and len(op[3]) % 2 == 0:
            return st.tg[op[1]].add_namespace(st.namespace(op[2], op[3]))     # the Namespace object itself
        return st.tg[op[1]].add_namespace(op[2], op[3])
    if k == "dns":
        t = op[1]
        b = st.tg[t]
        cur = b.get_default_namespace()
        # usage discipline of C03: a scope's default namespace is bound once (set, adopted, or
        # inherited-and-used); decided from observable state, not from the generator's shadow
        if (cur is not None and cur.uri != op[2]) or (cur is None and t in st.bare_seen) or \
                (t in st.dns_done and st.dns_done[t] != op[2]):
            raise Skip("discipline")
        st.dns_done[t] = op[2]
        return b.set_default_namespace(op[2])
    if k == "bundle":
        if _has_local(op):
            st.bare_seen.add("D")
        b = st.doc.bundle(st.mk_name(op[2]))
        st.tg[op[1]] = b
        return b
    if k == "docinit":
        if st.doc._records or st.doc._bundles or len(st.tg) > 1:
            raise Skip("late-docinit")
        nss = op[1]
        st.doc = pm.ProvDocument(namespaces=dict(nss) if op[2] == "dict" else [st.namespace(p, u) for p, u in nss])
        st.tg["D"] = st.doc
        declared = {n.uri for n in st.doc.namespaces}
        for p, u in nss:
            if u not in declared:
                # whatever prefix it ends up under, a namespace handed to the constructor is declared with *its* URI
                st.intent_problems.append("ProvDocument(namespaces=%s) declares no namespace <%s> (asked for %r)" % (op[2], u, p))
        return st.doc
    if k == "sbundle":
        if len(op) > 3 and op[3]:
            b = pm.ProvBundle(identifier=st.mk_name(op[2]), namespaces=dict(op[3]) if op[4] == "dict" else [st.namespace(p, u) for p, u in op[3]])
            st.tg[op[1]] = b
            st.detached.add(op[1])
            st.standalone.add(op[1])
            return b
        b = pm.ProvBundle(identifier=st.mk_name(op[2]))
        st.tg[op[1]] = b
        st.detached.add(op[1])
        st.standalone.add(op[1])
        return b
    if k == "attach":
        if op[1] not in st.tg or op[1] not in st.detached:
            raise Skip("no-target")
        if _has_local(op):
            st.bare_seen.add(op[1])
        b = st.tg[op[1]]
        st.doc.add_bundle(b, st.mk_name(op[2]))
        st.detached.discard(op[1])
        return b
    if k == "rec":
        t, kind, rid, args, extras, via, label = op[1:8]
        b = st.tg[t]
        if _has_local(op):
            st.bare_seen.add(t)
        factory, formals = KINDS[kind]
        try:
            fargs = {}
            for f, spec in args.items():
                fargs[f] = st.mk_time(spec) if f in TIME_ATTRS else st.mk_name(spec)
            ex = [(st.mk_name(n), st.mk_value(v)) for n, v in extras]
            ident = st.mk_name(rid)
        except KeyError:
            raise Skip("dangling-record-ref")
        pos = [fargs.get(f) for f in formals]
        if via == "conv":
            recv = st.recs.get(op[8])
            if recv is None:
                raise Skip("no-receiver")
            _cls, meth = CONVENIENCE[kind]
            before = len(recv.bundle._records)
            if kind in NO_ID_FACTORY:
                if ex or len(pos) < 2:
                    raise Skip("conv-na")
                getattr(recv, meth)(pos[1])
            else:
                getattr(recv, meth)(*pos[1:], attributes=ex)
            # the convenience method overrides the first formal argument with the receiver
            rec = recv.bundle._records[-1] if len(recv.bundle._records) == before + 1 else None
        elif via.startswith("factory:"):
            fname = via.split(":", 1)[1]
            style = _style(label) ^ st.style_xor
            if fname == "collection":
                rec = b.collection(ident, _extras_arg(ex, style)) if not style & 2 else b.collection(identifier=ident, other_attributes=_extras_arg(ex, style))
            else:
                meth = getattr(b, ALIASES[fname] if style & 1 else fname)
                if style & 2:
                    rec = meth(identifier=ident, other_attributes=_extras_arg(ex, style), **{f: fargs.get(f) for f in formals})
                else:
                    rec = meth(*pos, identifier=ident, other_attributes=_extras_arg(ex, style))
        elif via == "factory" and not (kind in NO_ID_FACTORY and (rid is not None or ex)):
            style = _style(label) ^ st.style_xor
            if kind in ("Entity", "Agent"):
                rec = getattr(b, factory)(ident, _extras_arg(ex, style)) if not style & 2 else \
                    getattr(b, factory)(identifier=ident, other_attributes=_extras_arg(ex, style))
            elif kind == "Activity":
                if style & 2:
                    rec = b.activity(identifier=ident, endTime=fargs.get("endTime"), startTime=fargs.get("startTime"), other_attributes=_extras_arg(ex, style))
                else:
                    rec = b.activity(ident, fargs.get("startTime"), fargs.get("endTime"), _extras_arg(ex, style))
            else:
                meth = getattr(b, ALIASES[factory] if style & 1 else factory)
                if kind in NO_ID_FACTORY:
                    rec = meth(**{f: fargs.get(f) for f in formals}) if style & 2 else meth(*pos)
                elif style & 2:
                    rec = meth(identifier=ident, other_attributes=_extras_arg(ex, style), **{f: fargs.get(f) for f in formals})
                else:
                    rec = meth(*pos, identifier=ident, other_attributes=_extras_arg(ex, style))
        else:
            rec = b.new_record(REC_TYPES[kind], ident, [(PROV[f], v) for f, v in fargs.items()], ex)
        if rec is not None:
            st.recs[label] = rec
            _remember_name(getattr(rec, "identifier", None), getattr(st, "prog", None))
        return rec
    if k == "attrs":
        rec = st.recs.get(op[1])
        if rec is None:
            raise Skip("no-record")
        if _has_local(op):
            for t, b in st.tg.items():
                if b is rec.bundle:
                    st.bare_seen.add(t)
        pairs = [(st.mk_name(n), st.mk_value(v)) for n, v in op[2]]
        if op[3] == "dict":
            d = {}
            for n, v in pairs:
                d[n] = v  # later pairs override earlier ones with the same key object
            rec.add_attributes(d)
        else:
            rec.add_attributes(pairs)
        return rec
    if k == "settime":
        rec = st.recs.get(op[1])
        if rec is None or not hasattr(rec, "set_time"):
            raise Skip("no-record")
        rec.set_time(st.mk_time(op[2]), st.mk_time(op[3]))
        return rec
    if k == "astype":
        rec = st.recs.get(op[1])
        if rec is None:
            raise Skip("no-record")
        rec.add_asserted_type(st.mk_value(op[2]))
        return rec
    if k == "lookup":
        return st.tg[op[1]].get_record(st.mk_name(op[2]))
    if k == "deepcopy":
        # copy.deepcopy of the whole document: the copies become targets of their own ("D~", "B0~" ...)
        import copy
        clone = copy.deepcopy(st.doc)
        st.tg["D~"] = clone
        by_uri = {b.identifier.uri: b for b in clone.bundles if b.identifier is not None}
        for t, b in list(st.tg.items()):
            if t != "D" and not t.endswith("~") and t not in st.detached and getattr(b, "identifier", None) is not None and b.identifier.uri in by_uri:
                st.tg[t + "~"] = by_uri[b.identifier.uri]
        return clone
    if k == "vqn":
        if op[1] not in st.tg:
            raise Skip("no-target")
        if _has_local(op):
            st.bare_seen.add(op[1])
        return st.tg[op[1]].valid_qualified_name(st.mk_name(op[2]))
    raise AssertionError("unknown op %r" % (op,))


def run(ops, on_step=None, stop_on_error=False, style_xor=0, use_pool=True, prog=None):
    """Run a program. Outcomes: 'ok', 'skip:<why>', 'refused:<ProvException subclass>', 'error:<Type>: msg'."""
    st = State()
    st.style_xor = style_xor
    st.use_pool = use_pool       # False: no name objects of earlier documents (what a fresh process would do)
    import zlib
    st.prog = prog if prog is not None else zlib.crc32(repr(ops).encode("utf-8"))     # a variant of a program passes its origin's
    if st.prog not in FIRST_SEEN:
        if len(FIRST_SEEN) > 200000:
            FIRST_SEEN.clear()
        FIRST_SEEN[st.prog] = len(NAME_POOL)
    for i, op in enumerate(ops):
        res = None
        try:
            res = exec_op(st, op)
            out = "ok"
        except Skip as e:
            out = "skip:%s" % e
        except pm.ProvException as e:
            out = "refused:%s" % type(e).__name__
        except Exception as e:  # not a library error: recorded, judged by the check
            out = "error:%s: %s" % (type(e).__name__, str(e)[:120])
            if stop_on_error:
                st.outcomes.append(out)
                raise
        st.outcomes.append(out)
        if on_step is not None:
            on_step(i, op, out, res, st)
    return st


def errors(st):
    return [o for o in st.outcomes if o.startswith("error:")]


# ---- read-only observations interleaved with construction ---------------------------------------------------
# "Looking at a document while it is being built must not change what is finally built or exported": accessors, printing,
# comparing, hashing and look-ups are observations.  They are issued between the operations of a program (seeded), which turns
# every property over documents into a property over *histories with observations* (stale caches, accessor side effects).
def make_observer(rng, p=0.35):
    def observe(i, op, out, res, st):
        if rng.random() > p:
            return
        try:
            doc = st.doc
            conts = [doc] + list(doc.bundles) + [st.tg[t] for t in st.detached if t in st.tg]
            c = rng.choice(conts)
            recs = c.get_records()
            what = rng.choice(["accessors", "provn", "json", "eqhash", "lookup", "listing", "repr", "xml", "copy"])
            if what == "accessors":
                for r_ in recs[-4:]:
                    r_.args, r_.formal_attributes, r_.extra_attributes, r_.attributes
                    r_.label, r_.value, r_.get_asserted_types(), r_.identifier, r_.bundle
                    r_.get_attribute("prov:type"), r_.get_attribute("prov:label"), r_.get_attribute("prov:location")
                    if hasattr(r_, "get_startTime"):
                        r_.get_startTime(), r_.get_endTime()
                    r_.is_element(), r_.is_relation(), r_.get_type()
            elif what == "provn":
                doc.get_provn()
                for r_ in recs[-3:]:
                    r_.get_provn()
            elif what == "json":
                doc.serialize(format="json")
            elif what == "xml":
                try:
                    doc.serialize(format="xml")
                except ValueError:
                    pass        # documents outside the XML space (control characters, IRIs as namespace names) are refused by lxml
            elif what == "copy":
                for r_ in recs[-3:]:
                    r_.copy()
            elif what == "eqhash":
                for r_ in recs[-4:]:
                    hash(r_)
                    r_ == r_
                len(set(recs))
                c == c
                doc == doc
            elif what == "lookup":
                for r_ in recs[-3:]:
                    if r_.identifier is not None:
                        c.get_record(r_.identifier.uri)
                        c.get_record(str(r_.identifier))
                c.get_record("urn:nothing:here")
            elif what == "listing":
                c.records, list(c.get_records(pm.ProvElement)), c.namespaces, c.get_default_namespace(), c.identifier
                doc.has_bundles(), list(doc.bundles), c.is_bundle(), c.is_document()
            else:
                for r_ in recs[-4:]:
                    repr(r_), str(r_)
                repr(c)
            st.observations = getattr(st, "observations", 0) + 1
        except Exception as e:       # an observation that raises is recorded; the property checks judge the final state
            st.observation_errors = getattr(st, "observation_errors", 0) + 1
    return observe
