"""pv -- runtime monitors and workloads for the 18 semantic properties of trungdong/prov."""
from pv import env as _env

_env.activate()  # the library under test is always imported from PROV_SRC, before anything else can import it
