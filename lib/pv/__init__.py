"""pv -- runtime monitors and workloads for the 18 semantic properties of trungdong/prov."""
