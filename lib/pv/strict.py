"""Strict, URI-level, kind-aware snapshots of prov documents (the judge that replaces ==).

Nothing here calls a comparison, a resolver or an exporter of the library: snapshots read
record._attributes / container._records / document._bundles / NamespaceManager tables directly,
so taking one can neither perturb the run nor inherit a defect of the library's own __eq__.
"""
import collections
import datetime

from prov.identifier import Identifier, QualifiedName
from prov.model import Literal


def vkey(v):
    """Value key: Python kind + exact content. bool before int (bool is an int)."""
    if isinstance(v, bool):
        return ("bool", v)
    if isinstance(v, int):
        return ("int", v)
    if isinstance(v, float):
        return ("float", repr(v))
    if isinstance(v, str):
        return ("str", v)
    if isinstance(v, datetime.datetime):
        off = None if v.tzinfo is None else v.utcoffset().total_seconds()
        return ("dt", v.replace(tzinfo=None).isoformat(), off)
    if isinstance(v, QualifiedName):
        return ("qn", v.uri)
    if isinstance(v, Identifier):
        return ("uri", v.uri)
    if isinstance(v, Literal):
        dt = v.datatype
        return ("lit", v.value, getattr(dt, "uri", None if dt is None else "?" + repr(dt)), v.langtag)
    if hasattr(v, "get_provn") and hasattr(v, "_attributes"):
        # a record object held as a value (the library is meant to store its identifier): everything one can see of it
        try:
            shown = v.get_provn()
        except Exception:
            shown = repr(v)
        return ("?record-object", type(v).__name__, shown)
    return ("?", type(v).__name__, repr(v))


def _uri(x):
    if x is None:
        return None
    u = getattr(x, "uri", None)
    return u if u is not None else "?" + repr(x)


def rec_key(rec):
    attrs = collections.Counter()
    for a, vs in list(rec._attributes.items()):
        for v in list(vs):
            attrs[(_uri(a), vkey(v))] += 1
    return (_uri(rec.get_type()), _uri(rec._identifier), tuple(sorted(attrs.items(), key=repr)))


def snap_bundle(b):
    return collections.Counter(rec_key(r) for r in b._records)


def ordered_bundle(b):
    return [rec_key(r) for r in b._records]


def _bundles_of(doc):
    return list(getattr(doc, "_bundles", {}).values())


def strict(doc):
    """{bundle URI | None: Counter(record key)}; duplicate bundle URIs are kept apart with a suffix
    (never merged silently)."""
    out = {None: snap_bundle(doc)}
    for b in _bundles_of(doc):
        k = _uri(b._identifier)
        while k in out:
            k = (k or "") + "#DUPLICATE-BUNDLE"
        out[k] = snap_bundle(b)
    return out


def ordered(doc):
    """Like strict() but keeping record order and bundle order."""
    return [(None, ordered_bundle(doc))] + [(_uri(b._identifier), ordered_bundle(b)) for b in _bundles_of(doc)]


def nsview_scope(b):
    nm = b._namespaces
    return (
        tuple(sorted((p, ns.uri) for p, ns in nm._namespaces.items())),
        nm._default.uri if nm._default is not None else None,
    )


def nsview(doc):
    """Per scope: registered prefix->URI table and default namespace URI (public observables:
    .namespaces and get_default_namespace())."""
    return [(None, nsview_scope(doc))] + [(_uri(b._identifier), nsview_scope(b)) for b in _bundles_of(doc)]


def as_sets(snap):
    return {k: set(v) for k, v in snap.items()}


def diff(s1, s2, limit=12):
    """Human-readable difference of two strict snapshots (lists, JSON-serialisable)."""
    msgs = []
    for k in sorted(set(s1) | set(s2), key=repr):
        if k not in s1:
            msgs.append(["extra-bundle", k, sum(s2[k].values())])
            continue
        if k not in s2:
            msgs.append(["missing-bundle", k, sum(s1[k].values())])
            continue
        a, b = collections.Counter(s1[k]), collections.Counter(s2[k])
        if a != b:
            for x in a - b:
                msgs.append(["lost", k, _jsonable(x)])
            for x in b - a:
                msgs.append(["gained", k, _jsonable(x)])
    return msgs[:limit]


def _jsonable(x):
    if isinstance(x, tuple):
        return [_jsonable(i) for i in x]
    if isinstance(x, (list, set, frozenset)):
        return [_jsonable(i) for i in x]
    if isinstance(x, dict):
        return {str(k): _jsonable(v) for k, v in x.items()}
    if isinstance(x, (str, int, float, bool)) or x is None:
        return x
    return repr(x)


jsonable = _jsonable


def total_records(snap):
    return sum(sum(c.values()) for c in snap.values())


# -- numeric-kind-collapsed keys (for C04: the library's == cannot tell 1 / True / 1.0) -----------
def collapse_vkey(vk):
    if vk[0] in ("bool", "int"):
        return ("num", float(vk[1]) if abs(vk[1]) < 2 ** 53 else vk[1])
    if vk[0] == "float":
        f = float(vk[1])
        return ("num", f)
    if vk[0] == "dt" and vk[2] is not None:
        # aware datetimes compare (and hash) by instant in Python, whatever their offset
        try:
            inst = datetime.datetime.fromisoformat(vk[1]) - datetime.timedelta(seconds=vk[2])
        except OverflowError:
            return vk
        return ("dt-instant", inst.isoformat())
    return vk


def collapse_rec_key(rk):
    t, i, attrs = rk
    return (t, i, frozenset((a, collapse_vkey(v)) for (a, v), _n in attrs))


def setlike_key(rk):
    """Record key with multiplicities dropped, values kept strict."""
    t, i, attrs = rk
    return (t, i, frozenset(a for a, _n in attrs))


def printed(doc):
    """The printed (prefix:local) form of every name a document shows: identifiers, attribute names, qualified-name values and
    literal datatypes.  A name whose URI is unchanged but whose printed prefix changed is an observable change of the document
    (its text exports change, possibly to an undeclared prefix)."""
    out = []
    for b in [doc] + _bundles_of(doc):
        rows = []
        for rec in b._records:
            names = [str(rec._identifier)]
            for a, vs in rec._attributes.items():
                for v in vs:
                    names.append(str(a))
                    if isinstance(v, QualifiedName):
                        names.append(str(v))
                    elif isinstance(v, Literal) and v.datatype is not None:
                        names.append(str(v.datatype))
            rows.append(tuple(sorted(names)))
        out.append((str(b._identifier) if b._identifier is not None else None, sorted(rows)))
    return out
