"""Hook layer: monitors attached from outside to the public entry points of the library.

Every monitor
  * wraps attributes of the imported classes/modules (functools.wraps; nothing is edited in /repo),
  * evaluates an oracle at the exit of the hooked call (normal or exceptional),
  * counts its evaluations (a deciding monitor with a zero count makes the check inconclusive),
  * reports through a sink callable  sink(monitor, what, witness)  and never raises into the library.

Monitors:  NS (C03)  NF (C05)  IDX (C18)  PURE (C13).  They are attached in every check's workload.
"""
import collections
import datetime
import functools
import weakref

from pv import env

env.activate()

import prov.model as pm  # noqa: E402
from prov.identifier import Identifier, Namespace, QualifiedName  # noqa: E402

from pv import strict  # noqa: E402

PROVNS = "http://www.w3.org/ns/prov#"
# The formal attributes of PROV-DM, written out here (not imported from prov.constants, which a
# change under test might edit).
REF_ATTRS = {PROVNS + n for n in (
    "entity activity trigger informed informant starter ender agent plan delegate responsible generatedEntity "
    "usedEntity generation usage specificEntity generalEntity alternate1 alternate2 bundle influencee influencer "
    "collection").split()}
TIME_ATTRS = {PROVNS + n for n in ("time", "startTime", "endTime")}
FORMAL = REF_ATTRS | TIME_ATTRS


class Hub:
    """Owns the attached monitors, the counters and the sink."""

    def __init__(self):
        self.counts = collections.Counter()
        self.violations = []          # (monitor, what, witness)
        self.sink = None
        self.attached = []
        self.quiet = 0                # >0: monitors pass through (used while monitors probe the library)
        self.pure_depth = 0           # >0: inside a call PURE is already guarding
        self.enabled = {"NS": True, "NF": True, "IDX": True, "PURE": True}
        self.context = None           # free-form description of the current case (for witnesses)

    def report(self, mon, what, witness):
        self.counts[mon + ".violations"] += 1
        if len(self.violations) < 50:
            self.violations.append((mon, what, witness))
        if self.sink:
            self.sink(mon, what, witness)

    def drain(self):
        v, self.violations = self.violations, []
        return v

    def patch(self, owner, name, make):
        orig = owner.__dict__[name]
        raw = orig.__func__ if isinstance(orig, (staticmethod, classmethod)) else orig
        new = functools.wraps(raw)(make(raw))
        if isinstance(orig, staticmethod):
            new = staticmethod(new)
        setattr(owner, name, new)
        self.attached.append((owner, name, orig))

    def detach(self):
        for owner, name, orig in reversed(self.attached):
            setattr(owner, name, orig)
        self.attached = []


HUB = Hub()


# =============================================================================================
# NS -- namespace history monitor (C03)
# =============================================================================================
class NSState:
    __slots__ = ("handed", "registered", "bare_ns", "default_bound", "undisciplined", "fp", "nhanded", "children", "parent_id")

    def __init__(self):
        self.handed = {}          # printed form -> uri   (names this manager has handed out)
        self.registered = {}      # prefix -> uri         (as first seen registered)
        self.bare_ns = None       # namespace URI of bare names handed out
        self.default_bound = None  # URI the default namespace was first set/adopted to
        self.undisciplined = False
        self.fp = None
        self.nhanded = 0
        self.children = []        # weakrefs to managers whose .parent is this one
        self.parent_id = None


_ns_by_id = {}                             # id(manager) -> (weakref, NSState); NamespaceManager is an unhashable dict
_ns_depth = [0]


def ns_state(m):
    ent = _ns_by_id.get(id(m))
    if ent is not None and ent[0]() is m:
        st = ent[1]
    else:
        st = NSState()
        ref = weakref.ref(m, lambda _r, k=id(m): _ns_by_id.pop(k, None))
        _ns_by_id[id(m)] = (ref, st)
    p = getattr(m, "parent", None)
    if p is not None and st.parent_id != id(p):
        st.parent_id = id(p)
        ns_state(p).children.append(weakref.ref(m))
    return st


def ns_family(m):
    """The managers sharing m's root (a document and its bundles), as far as they have been seen."""
    ns_state(m)
    root = m
    n = 0
    while getattr(root, "parent", None) is not None and n < 10:
        root = root.parent
        n += 1
    fam, stack = [], [root]
    while stack:
        x = stack.pop()
        fam.append(x)
        st = ns_state(x)
        live = []
        for ref in st.children:
            c = ref()
            if c is not None and getattr(c, "parent", None) is x:
                live.append(ref)
                if not any(c is y for y in fam) and not any(c is y for y in stack):
                    stack.append(c)
        st.children = live
    return fam


def _ns_fingerprint(m):
    d = m._default
    return (
        tuple((p, ns.uri) for p, ns in dict.items(m)),
        None if d is None else d.uri,
        tuple((p, ns.prefix, ns.uri) for p, ns in m._prefix_renamed_map.items()),
    )


def _clone_manager(m, memo=None):
    """Detached copy of a manager chain so that probing cannot perturb the run."""
    memo = {} if memo is None else memo
    if id(m) in memo:
        return memo[id(m)]
    c = dict.__new__(type(m))
    memo[id(m)] = c
    dict.update(c, dict.items(m))
    for k, v in m.__dict__.items():
        c.__dict__[k] = dict(v) if isinstance(v, dict) else v
    if getattr(m, "parent", None) is not None:
        c.parent = _clone_manager(m.parent, memo)
    return c


def _registered_view(m):
    return {ns.prefix: ns.uri for ns in m.get_registered_namespaces()}


def ns_probe(m, st, names=None, orig_vqn=None):
    """Clause (c): every name handed out by m, printed and resolved again in m, denotes the same URI.
    Clause (b): every prefix once registered still maps to the same URI."""
    hub = HUB
    reg = _registered_view(m)
    for p, u in st.registered.items():
        hub.counts["NS.b_checks"] += 1
        if reg.get(p) != u:
            hub.report("NS", "(b) prefix %r registered for <%s> now maps to %r" % (p, u, reg.get(p)),
                       {"clause": "b", "prefix": p, "was": u, "now": reg.get(p)})
    for p, u in reg.items():
        st.registered.setdefault(p, u)
    todo = st.handed if names is None else {n: st.handed[n] for n in names if n in st.handed}
    if not todo:
        return
    clone = _clone_manager(m)
    hub.quiet += 1
    try:
        for s, u in todo.items():
            if ":" not in s and st.undisciplined:
                hub.counts["NS.c_skipped_undisciplined"] += 1
                continue
            if s.startswith("_:"):
                hub.counts["NS.c_skipped_blank_node_like"] += 1
                continue
            hub.counts["NS.c_checks"] += 1
            try:
                q = orig_vqn(clone, s)
            except Exception as e:  # resolution of a printed name must not raise
                hub.report("NS", "(c) re-resolving %r raised %s" % (s, type(e).__name__), {"clause": "c", "name": s, "uri": u})
                continue
            got = None if q is None else q.uri
            if got != u:
                hub.report("NS", "(c) name handed out as %r for <%s> now resolves to %r" % (s, u, got),
                           {"clause": "c", "name": s, "was": u, "now": got,
                            "scope_prefixes": sorted(reg.items()), "default": None if m._default is None else m._default.uri})
    finally:
        hub.quiet -= 1


def ns_check_family(m, orig_vqn, full=False):
    for mm in ns_family(m):
        st = ns_state(mm)
        fp = _ns_fingerprint(mm)
        changed = fp != st.fp
        if full or changed:
            st.fp = fp
            ns_probe(mm, st, None, orig_vqn)
        # children resolve through their parents: a change here can re-point their names too
    return


def attach_ns(hub=HUB):
    NM = pm.NamespaceManager
    state = {"orig_vqn": None}

    def note_default(m, st, uri, how):
        if st.default_bound is None:
            st.default_bound = uri
        elif st.default_bound != uri:
            st.undisciplined = True   # the scope's default was re-bound: bare names are out of C03's discipline
            hub.counts["NS.default_rebound"] += 1
        if st.bare_ns is not None and st.bare_ns != uri:
            st.undisciplined = True

    def after(m, new_names):
        """Outermost exit of a hooked call on manager m."""
        if not hub.enabled["NS"]:
            return
        fam = ns_family(m)
        for mm in fam:
            st = ns_state(mm)
            fp = _ns_fingerprint(mm)
            if fp != st.fp:
                st.fp = fp
                hub.counts["NS.table_changes"] += 1
                # re-probe everything in this scope and in scopes that delegate to it
                for m2 in fam:
                    x = m2
                    n = 0
                    while x is not None and n < 10:
                        if x is mm:
                            ns_probe(m2, ns_state(m2), None, state["orig_vqn"])
                            break
                        x = getattr(x, "parent", None)
                        n += 1
        for mm, names in new_names.items():
            ns_probe(mm, ns_state(mm), names, state["orig_vqn"])

    pending = {}

    def mk_vqn(orig):
        state["orig_vqn"] = orig

        def valid_qualified_name(self, qname):
            if hub.quiet or not hub.enabled["NS"]:
                return orig(self, qname)
            _ns_depth[0] += 1
            try:
                res = orig(self, qname)
            finally:
                _ns_depth[0] -= 1
            try:
                st = ns_state(self)
                hub.counts["NS.vqn_calls"] += 1
                if isinstance(qname, QualifiedName):
                    hub.counts["NS.a_checks"] += 1
                    if res is None or res.uri != qname.uri:
                        hub.report("NS", "(a) resolving QualifiedName %r <%s> gave %r" % (str(qname), qname.uri, None if res is None else res.uri),
                                   {"clause": "a", "in": [str(qname), qname.uri], "out": None if res is None else [str(res), res.uri]})
                if res is not None and not res.namespace.prefix and ":" in res.localpart:
                    hub.counts["NS.skipped_colon_in_bare_local"] += 1   # printed form is ambiguous by construction
                elif res is not None:
                    s = str(res)
                    if not res.namespace.prefix:
                        nsu = res.namespace.uri
                        if st.bare_ns is None:
                            st.bare_ns = nsu
                        if self._default is not None:
                            note_default(self, st, self._default.uri, "adopt")
                    if s not in st.handed:
                        st.nhanded += 1
                        hub.counts["NS.names_handed_out"] += 1
                        hub.counts["NS.path." + _ns_path(self, qname, res)] += 1
                    elif st.handed[s] != res.uri:
                        hub.report("NS", "(c) the printed name %r was handed out for <%s> and now for <%s>" % (s, st.handed[s], res.uri),
                                   {"clause": "c", "name": s, "was": st.handed[s], "now": res.uri})
                    st.handed.setdefault(s, res.uri)
                    pending.setdefault(id(self), (self, set()))[1].add(s)
                if _ns_depth[0] == 0:
                    new = list(pending.values())
                    pending.clear()
                    after(self, _IdDict(new))
            except Exception as e:  # a monitor must never break the run
                hub.counts["NS.monitor_errors"] += 1
                hub.counts["NS.monitor_error." + type(e).__name__] += 1
            return res

        return valid_qualified_name

    def mk_add(orig):
        def add_namespace(self, namespace):
            if hub.quiet or not hub.enabled["NS"]:
                return orig(self, namespace)
            _ns_depth[0] += 1
            try:
                res = orig(self, namespace)
            finally:
                _ns_depth[0] -= 1
            try:
                hub.counts["NS.add_namespace_calls"] += 1
                if isinstance(res, Namespace) and isinstance(namespace, Namespace):
                    if res.uri != namespace.uri:
                        hub.report("NS", "(b) add_namespace(%r, <%s>) answered a namespace for <%s>" % (namespace.prefix, namespace.uri, res.uri),
                                   {"clause": "b", "asked": [namespace.prefix, namespace.uri], "got": [res.prefix, res.uri]})
                    if res.prefix != namespace.prefix:
                        hub.counts["NS.renamed_on_add"] += 1
                if _ns_depth[0] == 0:
                    pending.clear()
                    after(self, _IdDict({}))
            except Exception as e:
                hub.counts["NS.monitor_errors"] += 1
                hub.counts["NS.monitor_error." + type(e).__name__] += 1
            return res

        return add_namespace

    def mk_setdef(orig):
        def set_default_namespace(self, uri):
            if hub.quiet or not hub.enabled["NS"]:
                return orig(self, uri)
            _ns_depth[0] += 1
            try:
                res = orig(self, uri)
            finally:
                _ns_depth[0] -= 1
            try:
                hub.counts["NS.set_default_calls"] += 1
                note_default(self, ns_state(self), uri, "set")
                if _ns_depth[0] == 0:
                    pending.clear()
                    after(self, _IdDict({}))
            except Exception as e:
                hub.counts["NS.monitor_errors"] += 1
                hub.counts["NS.monitor_error." + type(e).__name__] += 1
            return res

        return set_default_namespace

    hub.patch(NM, "valid_qualified_name", mk_vqn)
    hub.patch(NM, "add_namespace", mk_add)
    hub.patch(NM, "set_default_namespace", mk_setdef)
    hub.ns_orig_vqn = state["orig_vqn"]


class _IdDict:
    """Minimal mapping keyed by object identity (NamespaceManager is an unhashable dict)."""

    def __init__(self, d):
        self._items = list(d.items()) if isinstance(d, dict) else list(d)

    def items(self):
        return self._items


def _ns_path(m, arg, res):
    """Which resolution path produced the name (evidence only)."""
    if isinstance(arg, QualifiedName):
        if not arg.namespace.prefix:
            return "qn-default" if res.namespace.prefix == "" else "qn-default->dn"
        return "qn-same-prefix" if res.namespace.prefix == arg.namespace.prefix else "qn-renamed"
    s = arg.uri if isinstance(arg, Identifier) else str(arg)
    if ":" in s:
        p = s.split(":", 1)[0]
        if p == res.namespace.prefix:
            return "str-prefix"
        if s.startswith(res.namespace.uri):
            return "str-uri-compaction"
        return "str-renamed-prefix"
    return "str-bare"


def ns_full_check(doc):
    """Re-evaluate (b) and (c) for every scope of a document over all names handed out so far."""
    m = doc._namespaces
    for mm in ns_family(m):
        ns_probe(mm, ns_state(mm), None, HUB.ns_orig_vqn)


def ns_held_check(doc):
    """Clause (c) over the names the containers *hold*: every identifier, attribute name, qualified-name value and literal datatype
    stored in a record is a name its container has handed out (it is what every writer prints); printed and resolved again in that
    container (on a detached copy of its manager) it must denote the same URI."""
    hub = HUB
    orig_vqn = hub.ns_orig_vqn
    conts = [doc] + list(getattr(doc, "_bundles", {}).values())
    for c in conts:
        m = c._namespaces
        st = ns_state(m)
        names = {}
        for rec in c._records:
            qs = [rec._identifier] if rec._identifier is not None else []
            for a, vs in rec._attributes.items():
                qs.append(a)
                for v in vs:
                    if isinstance(v, QualifiedName):
                        qs.append(v)
                    elif isinstance(v, pm.Literal) and isinstance(v.datatype, QualifiedName):
                        qs.append(v.datatype)
            for q in qs:
                if not isinstance(q, QualifiedName):
                    continue
                if not q.namespace.prefix and ":" in q.localpart:
                    continue
                names.setdefault(str(q), set()).add(q.uri)
        if not names:
            continue
        clone = _clone_manager(m)
        hub.quiet += 1
        try:
            for s, uris in names.items():
                if (":" not in s and st.undisciplined) or s.startswith("_:"):
                    continue
                hub.counts["NS.held_checks"] += 1
                if len(uris) > 1:
                    hub.report("NS", "(c) one container holds the printed name %r for %d URIs %s" % (s, len(uris), sorted(uris)[:3]),
                               {"clause": "c-held", "name": s, "uris": sorted(uris)})
                    continue
                u = next(iter(uris))
                try:
                    q = orig_vqn(clone, s)
                except Exception as e:
                    hub.report("NS", "(c) re-resolving the held name %r raised %s" % (s, type(e).__name__), {"clause": "c-held", "name": s, "uri": u})
                    continue
                got = None if q is None else q.uri
                if got != u:
                    hub.report("NS", "(c) a record of the container holds %r for <%s>; resolved in the container it denotes %r" % (s, u, got),
                               {"clause": "c-held", "name": s, "held_for": u, "resolves_to": got, "container": getattr(c._identifier, "uri", None),
                                "scope_prefixes": sorted(_registered_view(m).items()), "default": None if m._default is None else m._default.uri})
        finally:
            hub.quiet -= 1


# =============================================================================================
# NF -- normal form of records (C05)
# =============================================================================================
def nf_violations(rec, exempt=frozenset()):
    """Invariant on a record's attribute table.  exempt: attribute URIs allowed to be multi-valued
    (the PROV-JSON multi-member membership path, see DESIGN C05)."""
    out = []
    try:
        items = list(rec._attributes.items())
    except Exception as e:
        return ["attribute table unreadable: %r" % e]
    for a, vs in items:
        au = getattr(a, "uri", None)
        if not isinstance(a, QualifiedName):
            out.append("attribute name %r is not a QualifiedName" % (a,))
            continue
        if not isinstance(vs, set):
            out.append("values of %s are held in a %s" % (au, type(vs).__name__))
        if au in FORMAL:
            if len(vs) > 1 and au not in exempt:
                out.append("formal attribute %s holds %d values: %s" % (au, len(vs), sorted(map(repr, vs))[:4]))
            for v in vs:
                if au in REF_ATTRS and not isinstance(v, QualifiedName):
                    out.append("reference attribute %s holds a %s: %r" % (au, type(v).__name__, v))
                if au in TIME_ATTRS and not isinstance(v, datetime.datetime):
                    out.append("time attribute %s holds a %s: %r" % (au, type(v).__name__, v))
        else:
            for v in vs:
                if v is None:
                    out.append("attribute %s holds None" % au)
                elif isinstance(v, pm.Literal) and v.langtag is None and getattr(v.datatype, "uri", None) in NATIVE_XSD \
                        and valid_lexical(v.datatype.uri, v.value):
                    out.append("attribute %s holds %r although %s is natively supported" % (au, v, v.datatype.uri))
                elif isinstance(v, pm.ProvRecord):
                    out.append("attribute %s holds a record object" % au)
    return out


XSDNS = "http://www.w3.org/2001/XMLSchema#"
NATIVE_XSD = {XSDNS + n for n in ("int", "long", "double", "boolean", "string", "anyURI", "dateTime")}
_LEX = {
    "int": r"[+-]?[0-9]+", "long": r"[+-]?[0-9]+", "boolean": r"true|false|1|0",
    "double": r"[+-]?([0-9]+(\.[0-9]*)?|\.[0-9]+)([eE][+-]?[0-9]+)?|[+-]?INF|NaN",
    "dateTime": r"-?[0-9]{4,}-[0-9]{2}-[0-9]{2}T[0-9]{2}:[0-9]{2}:[0-9]{2}(\.[0-9]+)?(Z|[+-][0-9]{2}:[0-9]{2})?",
}


def valid_lexical(dturi, lex):
    """Is lex in the lexical space of the natively supported XSD datatype (our own table)?"""
    import re

    name = dturi[len(XSDNS):]
    if name in ("string", "anyURI"):
        return True
    pat = _LEX.get(name)
    return bool(pat and re.fullmatch(pat, lex))


_nf_exempt = {}   # id(record) -> (weakref, set(attr uri))


def nf_exempt_of(rec):
    ent = _nf_exempt.get(id(rec))
    if ent is not None and ent[0]() is rec:
        return ent[1]
    return frozenset()


def _nf_call_exemption(rec, attributes):
    """The carve-out of C05: the call contained prov:collection AND itself supplied >= 2 distinct
    values for the attribute."""
    try:
        pairs = list(attributes.items()) if isinstance(attributes, dict) else list(attributes or [])
    except Exception:
        return set()
    names = collections.defaultdict(set)
    for p in pairs:
        try:
            a, v = p
        except Exception:
            continue
        au = getattr(a, "uri", None) or str(a)
        if au.startswith("prov:"):
            au = PROVNS + au[5:]
        if isinstance(v, pm.ProvRecord):
            v = v.identifier
        vk = getattr(v, "uri", None) or repr(v)
        names[au].add(vk)
    if PROVNS + "collection" not in names:
        return set()
    return {au for au, vs in names.items() if len(vs) >= 2 and au in FORMAL}


def attach_nf(hub=HUB):
    def evaluate(rec, where, attributes=None):
        if not hub.enabled["NF"] or hub.quiet:
            return
        hub.counts["NF.evaluations"] += 1
        hub.counts["NF.at." + where] += 1
        ex = set(nf_exempt_of(rec))
        if attributes is not None:
            new = _nf_call_exemption(rec, attributes)
            if new:
                ex |= new
                try:
                    _nf_exempt[id(rec)] = (weakref.ref(rec, lambda _r, k=id(rec): _nf_exempt.pop(k, None)), ex)
                except TypeError:
                    pass
                hub.counts["NF.exempted_calls"] += 1
        bad = nf_violations(rec, ex)
        if bad:
            hub.report("NF", "after %s: %s" % (where, "; ".join(bad)[:400]),
                       {"where": where, "kind": getattr(rec.get_type(), "uri", None), "id": getattr(rec._identifier, "uri", None),
                        "problems": bad[:6], "context": hub.context})

    def mk_init(orig):
        def __init__(self, bundle, identifier, attributes=None):
            try:
                return orig(self, bundle, identifier, attributes)
            finally:
                if hasattr(self, "_attributes"):
                    evaluate(self, "__init__", attributes)

        return __init__

    def mk_add(orig):
        def add_attributes(self, attributes):
            try:
                return orig(self, attributes)
            finally:
                evaluate(self, "add_attributes", attributes)

        return add_attributes

    def mk_type(orig):
        def add_asserted_type(self, type_identifier):
            try:
                return orig(self, type_identifier)
            finally:
                evaluate(self, "add_asserted_type")

        return add_asserted_type

    def mk_time(orig):
        def set_time(self, startTime=None, endTime=None):
            try:
                return orig(self, startTime, endTime)
            finally:
                evaluate(self, "set_time")

        return set_time

    hub.patch(pm.ProvRecord, "__init__", mk_init)
    hub.patch(pm.ProvRecord, "add_attributes", mk_add)
    hub.patch(pm.ProvRecord, "add_asserted_type", mk_type)
    hub.patch(pm.ProvActivity, "set_time", mk_time)


# =============================================================================================
# IDX -- index coherence (C18)
# =============================================================================================
def idx_violations(c, extra_spellings=(), absent=("http://absent.example/none",), counts=None):
    """Compare get_record / get_records(cls) / records against a scan of get_records().
    Only spellings whose resolution has no side effect are used here (printed name, full URI); and because a look-up of an unknown
    identifier leaves an empty entry in the library's index (a defaultdict), the entries this probe adds are taken out again, so that
    a monitored run and a plain run have the same internal state."""
    idmap = getattr(c, "_id_map", None)
    known = set(idmap.keys()) if isinstance(idmap, dict) else None
    try:
        return _idx_violations(c, extra_spellings, absent, counts)
    finally:
        if known is not None and c._id_map is idmap:
            for k in [k for k in idmap.keys() if k not in known]:
                if not idmap[k]:
                    del idmap[k]


def _idx_violations(c, extra_spellings=(), absent=("http://absent.example/none",), counts=None):
    out = []
    recs = c.get_records()
    if not isinstance(recs, list):
        recs = list(recs)
    internal = getattr(c, "_records", None)
    if recs is internal or c.records is internal:
        out.append("records / get_records() hand out the internal list")
    if [id(r) for r in c.records] != [id(r) for r in recs]:
        out.append("records differs from get_records()")
    byuri = collections.OrderedDict()
    for r in recs:
        i = r.identifier
        if i is not None:
            byuri.setdefault(i.uri, []).append(r)
    nsv = strict.nsview_scope(c)
    for uri, rs in byuri.items():
        ident = rs[0].identifier
        for spelling, x in (("printed", str(ident)), ("uri", uri)):
            if counts is not None:
                counts["IDX.lookups." + spelling] += 1
            try:
                got = c.get_record(x)
            except Exception as e:
                out.append("get_record(%r) raised %s" % (x, type(e).__name__))
                continue
            gl = [] if got is None else list(got)
            if [id(g) for g in gl] != [id(r) for r in rs]:
                out.append("get_record(%s %r) returned %d records %s, the scan finds %d for <%s>"
                           % (spelling, x, len(gl), [getattr(g.identifier, "uri", None) for g in gl][:3], len(rs), uri))
    for a in absent:
        if a in byuri:
            continue
        if counts is not None:
            counts["IDX.lookups.absent"] += 1
        try:
            got = c.get_record(a)
        except Exception as e:
            out.append("get_record(absent %r) raised %s" % (a, type(e).__name__))
            continue
        if got:
            out.append("get_record(absent %r) returned %d records" % (a, len(got)))
    if strict.nsview_scope(c) != nsv:
        if counts is not None:
            counts["IDX.probe_side_effects"] += 1
    # typed listing
    for cls in (pm.ProvElement, pm.ProvRelation, pm.ProvEntity, pm.ProvActivity, pm.ProvAgent, pm.ProvDerivation,
                pm.ProvSpecialization, (pm.ProvGeneration, pm.ProvUsage), pm.ProvMembership):
        if counts is not None:
            counts["IDX.typed_listings"] += 1
        try:
            got = list(c.get_records(cls))
        except Exception as e:
            out.append("get_records(%r) raised %s" % (cls, type(e).__name__))
            continue
        want = [r for r in recs if isinstance(r, cls)]
        if [id(g) for g in got] != [id(r) for r in want]:
            out.append("get_records(%s) returned %d records, isinstance filter gives %d" % (getattr(cls, "__name__", cls), len(got), len(want)))
    return out


def idx_check_tree(doc, where, hub=HUB):
    if not hub.enabled["IDX"] or hub.quiet:
        return
    hub.quiet += 1
    try:
        containers = [doc] + list(getattr(doc, "_bundles", {}).values())
        for c in containers:
            hub.counts["IDX.evaluations"] += 1
            hub.counts["IDX.at." + where] += 1
            bad = idx_violations(c, counts=hub.counts)
            if bad:
                hub.report("IDX", "after %s: %s" % (where, "; ".join(bad)[:500]),
                           {"where": where, "container": getattr(c.identifier, "uri", None), "problems": bad[:6], "context": hub.context})
    except Exception as e:
        hub.counts["IDX.monitor_errors"] += 1
        hub.counts["IDX.monitor_error." + type(e).__name__] += 1
    finally:
        hub.quiet -= 1


def _root_of(b):
    d = getattr(b, "_document", None)
    return d if d is not None else b


def attach_idx(hub=HUB, sample_every=1):
    tick = [0]

    def wrap_container_method(name, where):
        def make(orig):
            def method(self, *a, **k):
                try:
                    res = orig(self, *a, **k)
                except BaseException:
                    # a refused or failing call may leave records behind; whatever it leaves must still be indexed consistently
                    if hub.enabled["IDX"] and not hub.quiet:
                        hub.counts["IDX.at_exceptional_exit"] += 1
                        idx_check_tree(_root_of(self), where + ".raised", hub)
                    raise
                if hub.enabled["IDX"] and not hub.quiet:
                    tick[0] += 1
                    if tick[0] % sample_every == 0:
                        idx_check_tree(_root_of(self), where, hub)
                        if isinstance(res, pm.ProvBundle) and res is not self:
                            idx_check_tree(_root_of(res), where + ".result", hub)
                return res

            return method

        return make

    for cls, names in ((pm.ProvBundle, ("new_record", "add_record", "update", "unified")),
                       (pm.ProvDocument, ("update", "add_bundle", "bundle", "unified", "flattened"))):
        for n in names:
            hub.patch(cls, n, wrap_container_method(n, "%s.%s" % (cls.__name__, n)))

    def mk_deser(orig):
        def deserialize(source=None, content=None, format="json", **args):
            res = orig(source=source, content=content, format=format, **args)
            if isinstance(res, pm.ProvBundle):
                idx_check_tree(res, "deserialize." + str(format), hub)
            return res

        return deserialize

    hub.patch(pm.ProvDocument, "deserialize", mk_deser)


# =============================================================================================
# PURE -- exporting never mutates (C13)
# =============================================================================================
def pure_links(doc):
    """Who owns what: the bundle objects of a document, whether each still says it belongs to the document (bundle.document) and
    whether its namespace scope still inherits from the document's.  An operation that hands a bundle object to another document
    leaves content and text alone and shows only here (and at the next build step on the bundle)."""
    if not hasattr(doc, "_bundles"):
        return ()
    return tuple((id(b), b.document is doc, getattr(b._namespaces, "parent", None) is doc._namespaces) for b in doc._bundles.values())


def pure_lookups(doc, hub=None):
    """What a look-up by identifier answers, and in which order: per container, every identifier its records carry with the objects
    that get_record() lists for it.  Asked through the public method, with the other monitors passing through."""
    hub = hub or HUB
    out = []
    hub.quiet += 1
    try:
        for c in [doc] + list(getattr(doc, "_bundles", {}).values()):
            seen, rows = set(), []
            for rec in c._records:
                ident = rec._identifier
                if ident is None or ident.uri in seen:
                    continue
                seen.add(ident.uri)
                try:
                    rows.append((ident.uri, tuple(id(x) for x in (c.get_record(ident) or ()))))
                except Exception as e:
                    rows.append((ident.uri, type(e).__name__))
            out.append(tuple(rows))
    finally:
        hub.quiet -= 1
    return tuple(out)


def pure_snapshot(doc):
    return (strict.ordered(doc), strict.nsview(doc), strict.printed(doc), pure_links(doc), pure_lookups(doc))


def pure_compare(before, after):
    msgs = []
    if before[0] != after[0]:
        b, a = before[0], after[0]
        if [k for k, _ in b] != [k for k, _ in a]:
            msgs.append("bundle list changed: %r -> %r" % ([k for k, _ in b], [k for k, _ in a]))
        for (k1, r1), (k2, r2) in zip(b, a):
            if r1 != r2:
                if collections.Counter(r1) == collections.Counter(r2):
                    msgs.append("record order changed in %r" % (k1,))
                else:
                    lost = list((collections.Counter(r1) - collections.Counter(r2)).elements())[:2]
                    gained = list((collections.Counter(r2) - collections.Counter(r1)).elements())[:2]
                    msgs.append("content changed in %r: lost %s gained %s" % (k1, strict.jsonable(lost), strict.jsonable(gained)))
    if before[1] != after[1]:
        for (k1, v1), (k2, v2) in zip(before[1], after[1]):
            if v1 != v2:
                msgs.append("namespaces of %r changed: %r -> %r" % (k1, v1, v2))
        if len(before[1]) != len(after[1]):
            msgs.append("number of scopes changed")
    if len(before) > 2 and before[2] != after[2] and not msgs:
        for (k1, r1), (k2, r2) in zip(before[2], after[2]):
            if (k1, r1) != (k2, r2):
                d1 = [x for x in r1 if x not in r2][:1]
                d2 = [x for x in r2 if x not in r1][:1]
                msgs.append("printed names changed in %r (same URIs): %s -> %s" % (k1, d1, d2))
                break
    if len(before) > 3 and len(after) > 3 and before[3] != after[3] and not msgs:
        msgs.append("ownership of the bundles changed (bundle objects, bundle.document, inherited namespace scope): %r -> %r"
                    % ([x[1:] for x in before[3]], [x[1:] for x in after[3]]))
    if len(before) > 4 and len(after) > 4 and before[4] != after[4] and not msgs:
        for c1, c2 in zip(before[4], after[4]):
            for (u1, l1), (u2, l2) in zip(c1, c2):
                if (u1, l1) != (u2, l2):
                    same = isinstance(l1, tuple) and isinstance(l2, tuple) and sorted(l1) == sorted(l2)
                    msgs.append("get_record(<%s>) lists %s" % (u1, "the same records in another order" if same else "other records than before (%r -> %r)"
                                                                  % (l1 if not isinstance(l1, tuple) else len(l1), l2 if not isinstance(l2, tuple) else len(l2))))
                    break
            if msgs:
                break
    return msgs


def attach_pure(hub=HUB, max_records=60):
    def guard(where_fn, subject_fn):
        def make(orig):
            def method(*a, **k):
                if not hub.enabled["PURE"] or hub.quiet or hub.pure_depth:
                    return orig(*a, **k)
                subjects = []
                try:
                    for s in subject_fn(*a, **k):
                        if isinstance(s, pm.ProvBundle):
                            root = _root_of(s)
                            if len(root._records) <= max_records:
                                subjects.append((root, pure_snapshot(root)))
                            else:
                                hub.counts["PURE.skipped_large"] += 1
                except Exception:
                    hub.counts["PURE.monitor_errors"] += 1
                    subjects = []
                hub.pure_depth += 1  # nested exporter calls are part of this call
                try:
                    return orig(*a, **k)
                finally:
                    hub.pure_depth -= 1
                    try:
                        where = where_fn(*a, **k)
                        for root, before in subjects:
                            hub.counts["PURE.evaluations"] += 1
                            hub.counts["PURE.at." + where] += 1
                            msgs = pure_compare(before, pure_snapshot(root))
                            if msgs:
                                hub.report("PURE", "%s changed its subject: %s" % (where, "; ".join(msgs)[:500]),
                                           {"where": where, "changes": msgs[:6], "context": hub.context})
                    except Exception as e:
                        hub.counts["PURE.monitor_errors"] += 1
                        hub.counts["PURE.monitor_error." + type(e).__name__] += 1

            return method

        return make

    first = lambda self, *a, **k: [self]
    both = lambda self, other=None, *a, **k: [self, other]
    hub.patch(pm.ProvDocument, "serialize", guard(lambda self, destination=None, format="json", **k: "serialize." + str(format), first))
    hub.patch(pm.ProvBundle, "get_provn", guard(lambda self, *a, **k: "get_provn", first))
    hub.patch(pm.ProvDocument, "unified", guard(lambda self: "ProvDocument.unified", first))
    hub.patch(pm.ProvBundle, "unified", guard(lambda self: "ProvBundle.unified", first))
    hub.patch(pm.ProvDocument, "flattened", guard(lambda self: "flattened", first))
    hub.patch(pm.ProvDocument, "__eq__", guard(lambda self, other: "ProvDocument.__eq__", both))
    hub.patch(pm.ProvBundle, "__eq__", guard(lambda self, other: "ProvBundle.__eq__", both))
    try:
        import prov.dot as pdot
        import prov.graph as pgraph

        hub.patch(pdot, "prov_to_dot", guard(lambda bundle, *a, **k: "prov_to_dot", lambda bundle, *a, **k: [bundle]))
        hub.patch(pgraph, "prov_to_graph", guard(lambda d, *a, **k: "prov_to_graph", lambda d, *a, **k: [d]))
    except Exception:
        hub.counts["PURE.dot_or_graph_unavailable"] += 1


def attach_all(hub=HUB, idx_sample_every=1):
    """Attach the four background monitors (order matters: PURE outermost on shared entry points)."""
    if hub.attached:
        return hub
    attach_ns(hub)
    attach_nf(hub)
    attach_pure(hub)
    attach_idx(hub, idx_sample_every)   # outermost: its look-ups run after PURE has taken its "after" snapshot
    return hub
